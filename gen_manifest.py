#!/usr/bin/env python3
"""Regenerates MANIFEST.json from the table below (kept in one place so it stays valid)."""
import json, subprocess

HOOK_COMMITS = ["09a7702","2a0a33e"]

CHECKS = {
 'C01': ('model_checking', 'bounded exhaustive BFS over host-call histories on the real interpreter (canonical-state dedup) + exhaustive line-shape sweep + recursion-depth probe grid in isolated children',
         'Every protocol-respecting host-call history up to the depth bound over the event alphabet (from 4 root states), every line of <= n atoms over the atom alphabet (immediate and as a stored line + RUN), and a grid of nesting routes x depths x 2 stack sizes (isolated child processes) were executed on the real code. Oracle per call: returns (wedge watchdog), no panic, errors are values after which the interpreter is idle and still runs a statement, every error renders as source line + caret (a line that does not tokenize as the line just entered), nesting counter back at 0. Alphabets and counts: evidence file and DESIGN.md 4a.',
         'alphabets / bounds as recorded in evidence; texts outside the alphabets are not covered', '4 C01'),
 'C02': ('exploration', 'small-scope exhaustive enumeration of expression trees against an independent reference fold',
         'All expression trees up to 2 (quick) / 3 (thorough) binary operators with unary / ABS / INT wrappers, each printed with minimal and with redundant parentheses by the real interpreter and compared with a reference fold; plus the same one-operator trees in long-lived sessions, a numeral pass against the nearest double, a string-order / truth-value pass, whole and fractional powers, INT / ABS at the integer-range edges.',
         'f64 Display and powf shared with the subject; arithmetic on two strings and unary plus on a string not compared', '4 C02'),
 'C03': ('exploration', "small-scope exhaustive enumeration of programs (statement sequences x ':'-join layouts) run on the real interpreter and on an independent reference machine",
         "Every statement sequence up to the family's length bound over ten template menus (full, core, loop, nest, data, fn, array, branch, quiet, forvar), in the explored ':'-join layouts, is run on the real interpreter and on the reference machine; printed output, error kind and error line must agree. Plus a session pass (programs run one after the other in one interpreter) and an array sweep (every shape of 1-3 dimensions, every subscript tuple read and written).",
         'the reference machine src/refmodel.rs is the oracle; long-running programs are compared on the common output prefix', '4 C03'),
 'C04': ('model_checking', 'explicit-state BFS over edit histories on the real interpreter to an empty frontier (full closure) + exhaustive unrolled edit sequences, against a BTreeMap reference',
         "All stores reachable over the edit alphabet (number spellings incl. padded, indented and the u64 extremes x line texts incl. rejected ones, LIST, RUN) are visited to an empty frontier; after every event LIST (against the entered text's own fresh listing), RUN order and the two internal indexes are compared with a last-writer-wins map; every sequence of <= 3 (quick) / 5 (thorough) edits over three keys is also run without state merging, with LIST after every edit and the same lines loaded as a file.",
         'line texts limited to the alphabet', '4 C04'),
 'C05': ('exploration', 'small-scope exhaustive enumeration of files (line menu, character alphabet) + nesting grid in isolated children',
         'Every file of <= n menu lines (with per-line attribution), long files, every string of <= m characters over two character alphabets (ASCII structure; Unicode look-alikes of blanks and digits, byte order mark), every menu file behind each exotic character, and a nesting-depth grid are analysed by the real analyzer; it must return, give one token list per line, and every diagnostic must map to an in-bounds, character-aligned position on the line it names.',
         'file contents limited to the recorded menus', '4 C05'),
 'C06': ('exploration', 'small-scope exhaustive enumeration of statement contexts x expression trees; analyzer verdict vs execution under every preset',
         'Every statement context (incl. DEF bodies, later subscripts, second stores, code after END, IF as a later statement, nested IFs, INPUT with replies) x expression tree (<= 1 operator everywhere, <= 2 in the deep contexts; thorough: <= 2 everywhere) is analysed by the real analyzer and executed by the real interpreter under all four variable presets; accepted programs must never fail with syntax / type mismatch / undefined statement, rejected straight-line statements must fail (also from a fresh state, also as a redefinition inside a file).',
         'programs satisfy the precondition on DEF placement by construction', '4 C06'),
 'C07': ('model_checking', 'exhaustive schedule enumeration (all break sets up to k boundaries x inspection menu) on the real interpreter, self-differential against the uninterrupted run',
         'For 12 fixed programs, every set of <= 2 (quick) / 3 (thorough) turn boundaries is used as break points, each with every inspection statement, followed by CONT; transcript, outcome and final interpreter state must equal the uninterrupted run. Grammar pass: every program of the core / branch / input families x every single boundary x {CONT, failing inspection + CONT}. STOP + assignment against the assignment written in place, at every line position and in nine placements.',
         'boundaries capped at 60 per fixed program and 30 per grammar program (runs cut by the cap are compared on the common prefix)', '4 C07'),
 'C08': ('exploration', 'exhaustive enumeration of INPUT placements x targets x replies x REENTER prefixes, self-differential (INPUT vs STOP vs assignment variants)',
         'Every (placement, target, reply, REENTER prefix) combination is run with INPUT and compared with the STOP variant (suspension) and the assignment variant (resumption); every reply of <= 4 (quick) / 5 (thorough) atoms to three kinds of target and every program of the INPUT family with five reply scripts are compared with the reference machine (transcript, end, variables).',
         'what a numeric-looking reply becomes in a string variable, and whether an empty item next to a separator counts as an item, are not compared', '4 C08'),
 'C09': ('model_checking', 'every turn of every enumerated program instrumented with hook counters and kept in stuttering lockstep with the one-statement-per-step reference machine; hand-back at every boundary of non-terminating programs',
         'Every turn of every enumerated program (fixed set, core / full / quiet / input families, non-terminating set, immediate submissions in six kinds of idle state) is instrumented with hook counters (statement entries, IF dispatches, token reads) and kept in stuttering lockstep with the one-statement-per-step reference machine; break + CONT and hand-back at every boundary of the non-terminating programs.',
         'work measured as token-cursor reads (hook counters)', '4 C09'),
 'C10': ('model_checking', 'BFS over session histories on the real interpreter with a differential RUN probe in every distinct idle state',
         "For four observer programs (one empty) every session history over the event alphabet (incl. edits, a generator-advancing statement; warnings on) up to the depth bound is explored; in every distinct idle state RUN (three spellings) is compared with a fresh interpreter built from the listing and given the session's generator state, and the generator state after the run must lie on the documented sequence from the state before.",
         'equal canonical snapshots have equal futures', '4 C10'),
 'C11': ('model_checking', 'exhaustive enumeration of suspension points x edits x probes (pairs in thorough) on the real interpreter',
         "For five suspension programs, every turn boundary (and 'never run') x eight edits x four pre-edit configurations x nine probes (thorough: all ordered probe pairs): after an accepted edit CONT / RETURN / NEXT / FN / READ must behave as the property says and variables are kept; after a rejected edit every probe must answer as without the edit.",
         'identical-text replacement and deletion of an absent line are not counted as changes', '4 C11'),
 'C12': ('exploration', 'deviation-bounded exhaustive perturbation (blank insertion/deletion, case flips) of all short token-spelling sequences, compared by token sequence',
         'For every base line of <= 3 token spellings, every single perturbation (blank / tab insertion, blank deletion, case flip, a run of 20 blanks) and every pair within a 6-byte window (all pairs for 1-spelling lines), plus crunched / spread / wide / lower / upper forms, must tokenize to the same token sequence.',
         'protected regions are marked in the spelling table', '4 C12'),
 'C13': ('exploration', 'exhaustive enumeration of lines over an atom alphabet with a re-tokenization oracle',
         "Every concatenation of <= n atoms is tokenized by the real tokenizer; ranges must be in bounds, character-aligned, ordered, blank-free at the ends and re-tokenize to exactly their token; error positions must be in bounds with a tokenizable prefix. Interpreter route (lines entered after a failed command: no program line, the entered line shown, caret under the tokenizer's position) and analyzer route (one token list per file line, ranges equal to the tokenizer's).",
         'atoms limited to the recorded alphabet', '4 C13'),
 'C14': ('exploration', 'exhaustive enumeration of storable lines (token adjacencies, numeral spellings, DATA item lists, REM) with a LIST/reload fixed-point and behaviour oracle',
         'Every enumerated program is stored, listed, reloaded from its listing (typed, and loaded as a source file) into a fresh interpreter and listed again; listings, stored tokens, RUN transcripts and the DATA items a reader block sees must be identical; LIST must follow edits; sessions with history (DATA read, lines replaced) must run like their own listing in a fresh interpreter.',
         'RUN compared with a 300-turn cap; one recorded known finding (symbol followed by a leading-dot numeral)', '4 C14'),
 'C15': ('exploration', 'exhaustive enumeration of well-formed files (library level) and of all option combinations x both modes on the built abasic binary',
         'Library level: every file of <= 3 (quick) / 4 (thorough) menu lines loaded with and without the static check against the same lines typed in (listing, RUN transcript, final state). Process level: 19 programs x 8 option sets x {abasic FILE, piped interactive session} on the built binary, compared on program output, warnings, trace records, exit status.',
         'NO_COLOR, piped stdio, scratch HOME; CLI programs do not call RND', '4 C15'),
 'C16': ('model_checking', 'invariant checked on the complete state snapshot after every host call of a BFS over a writer-focused alphabet, an exhaustive DIM subscript sweep and cap programs around the limits',
         "The invariant (caps, cell counts, name-suffix typing, nesting counter) is evaluated on the complete snapshot after every host call of a BFS over a writer-focused alphabet, of a DIM subscript sweep, of cap programs around 32 on four routes, of sessions stopped with 30-32 frames held, and of every loop / subroutine grammar program, whose open loops and frames after the run must not exceed the reference machine's.",
         'snapshot hook renders every stored value', '4 C16'),
 'C17': ('exploration', 'exhaustive enumeration of programs x 8 routes to the 4 (tracing, warnings) configurations; trace and warning records compared with the reference machine',
         "Every program (fixed set, ten grammar families, INPUT family with reply scripts) is run under 8 routes to the 4 (tracing, warnings) configurations: everything but trace / warning records and the final state must be identical; traces (collapsed) and warnings must equal the reference machine's; tracing switched on at a breakpoint, re-entry by GOTO, break + CONT under tracing; hand-derived cases with empty statements and lazily collected output.",
         'expectations for trace/warnings come from src/refmodel.rs', '4 C17'),
 'C18': ('model_checking', 'full sweep of all 2^33 generator states through the real step function + exhaustive short call sequences through the interpreter',
         'All 2^33 states of the generator are stepped through the real Rng::random and compared with the closed form; seeds beyond 2^33 on a boundary set (thorough: all 2^24 top-bit patterns); every sequence of <= 6 RND calls over 6 arguments, and of <= 4 items over 12 (negative zero, calls the parser rejects, re-seedings of a used interpreter), x 5 seeds through PRINT, also after a program DEFining RND has run; nested RND, RUN, core vs web adapter.',
         'seeds >= 2^33 rest on the modular-reduction argument plus the enumerated high-bit patterns', '4 C18'),
 'C19': ('model_checking', 'BFS over page events where the real main.ts (node vm, types stripped) drives the real JsInterpreter over a synchronous RPC channel, with a mirror core interpreter as oracle',
         'The real main.ts (types stripped, node vm) drives the real JsInterpreter natively over a synchronous RPC channel; every history of page events (submitted lines, ctrl-c, timer ticks) up to the depth bound from 11 start-up configurations is explored; every adapter call is compared with a mirror core interpreter (state, output records with types, error text + source line + caret), no call may trap, NEW must yield a fresh interpreter.',
         'ui.ts (DOM) is stubbed; at most two timers pending', '4 C19'),
 'C20': ('exploration', 'exhaustive enumeration of open/change/semantic-token histories over a document set against the abasic-lsp binary over stdio, compared with the in-process analyzer (UTF-16 conversion done by the driver)',
         "Histories of didOpen / didChange (single and multi-change) / semanticTokens over the document set (menu files with LF and CR LF, non-ASCII and Unicode-blank documents), incl. re-open, trailing-line changes, a second document under a case-variant URI and clients with different capabilities, are sent to the abasic-lsp binary over stdio; the server must answer each, diagnostics must equal the in-process analyzer's (UTF-16 columns), every range and token must lie inside the document with a type from the advertised legend.",
         'a missing answer within 8 s counts as a dead server', '4 C20'),
}

NOT_YET = {}

def main():
    props = [json.loads(l) for l in open("/verif/properties.jsonl")]
    checks = []
    na = []
    for p in props:
        pid = p["id"]
        if pid in CHECKS:
            level, tech, text, note, ref = CHECKS[pid]
            checks.append({
                "property_id": pid,
                "quick_cmd": "./check %s --tier quick" % pid,
                "thorough_cmd": "./check %s --tier thorough" % pid,
                "evidence_file": "/verif/evidence/%s.json" % pid,
                "replay_cmd_template": "./check %s --replay {path}" % pid,
                "engine": "mc",
                "level_claimed": {"category": level, "text": text, "design_ref": "DESIGN.md section " + ref},
                "level_note": note,
                "technique": tech,
            })
        else:
            na.append({"property_id": pid, "reason": NOT_YET.get(pid, "check not built yet in this round; no claim is made (see DESIGN.md section 4 for the planned bounded-exhaustive check)")})
    m = {
        "version": 1,
        "setup_cmd": "./check --build",
        "hooks": {
            "guard": "cargo feature verif-hooks (abasic-core)",
            "enable": "the harness crate /verif/mc depends on /repo/abasic-core by path with features=[\"verif-hooks\"]; ./check rebuilds it (cargo, offline) before every run",
            "baseline_off_cmd": "cd /repo && RUST_BACKTRACE=0 cargo test --workspace --no-fail-fast --offline",
            "source_commits": HOOK_COMMITS,
            "add_only": True,
        },
        "engines": [
            {"name": "mc", "path": "/verif/mc", "serves_properties": sorted(CHECKS.keys()),
             "kind_free_text": "Rust harness linking the real abasic-core/abasic-web: layered BFS over host-call histories with replay and canonical-snapshot dedup, small-scope exhaustive enumerators against a reference model (src/refmodel.rs), full 2^33 generator sweep"},
        ],
        "checks": checks,
        "not_applicable": na,
        "notes": "Entry point ./check <ID> --tier quick|thorough. Exit 0 held / 1 VIOLATION / 2 machinery error. Known findings: /verif/known_findings.txt.",
    }
    json.dump(m, open("/verif/MANIFEST.json", "w"), indent=1)
    print("wrote MANIFEST.json with %d checks, %d not_applicable" % (len(checks), len(na)))

main()
