#!/usr/bin/env python3
"""Regenerates MANIFEST.json from the table below (kept in one place so it stays valid)."""
import json, subprocess

HOOK_COMMITS = ["09a7702","2a0a33e"]

CHECKS = {
 "C01": ("model_checking", "bounded exhaustive BFS over host-call histories on the real interpreter (canonical-state dedup) + exhaustive line-shape sweep + recursion-depth probe grid in isolated children",
         "Every protocol-respecting host-call history up to the depth bound over a 57-event alphabet (from 4 root states), every line of <= n atoms over 28 atoms, and an 8-route x 7-depth x 2-stack nesting grid were executed on the real code; the oracle is 'call returns, errors are values, state idle, error renders'.",
         "alphabet/bounds as recorded in evidence; texts outside the alphabet are not covered; wedge detection is the wrapper's wall-clock cap", "4 C01"),
 "C02": ("exploration", "small-scope exhaustive enumeration of expression trees against an independent reference fold",
         "All expression trees up to 2 (quick) / 3 (thorough) binary operators with unary/ABS/INT wrappers, each printed with minimal and redundant parentheses by the real interpreter and compared with a reference fold.",
         "f64 Display and powf shared with the subject; arithmetic on two strings and unary plus on a string not compared", "4 C02"),
 "C18": ("model_checking", "full sweep of all 2^33 generator states through the real step function + exhaustive short call sequences through the interpreter",
         "All 2^33 states of the generator are stepped through the real Rng::random and compared with the closed form; seeds beyond 2^33 on a boundary set (thorough: all 2^24 top-bit patterns); every sequence of <= 6 RND calls over 6 argument values x 5 seeds through PRINT.",
         "seeds >= 2^33 rest on the modular-reduction argument plus the enumerated high-bit patterns", "4 C18"),
 "C03": ("exploration", "small-scope exhaustive enumeration of programs (statement sequences x ':'-join layouts) run on the real interpreter and on an independent reference machine",
         "Every statement sequence up to the length bound over a 50-template menu (plus deeper sequences over core menus), in the explored join layouts, is run on the real interpreter and on the reference machine; printed output, error kind and error line must agree.",
         "the reference machine src/refmodel.rs is the oracle; long-running programs are compared on the common output prefix", "4 C03"),
 "C04": ("model_checking", "explicit-state BFS over edit histories on the real interpreter to an empty frontier (full closure) + exhaustive unrolled edit sequences, against a BTreeMap reference",
         "All stores reachable over the edit alphabet (6 number spellings incl. u64 extremes x 5 texts, LIST, RUN) are visited; after every event LIST, RUN order and the two internal indexes are compared with a last-writer-wins map; every sequence of <= 4 (quick) / 6 (thorough) edits over three keys is also run without state merging.",
         "line texts limited to the alphabet", "4 C04"),
 "C05": ("exploration", "small-scope exhaustive enumeration of files (line menu, character alphabet) + nesting grid in isolated children",
         "Every file of <= n menu lines, every string of <= m characters over a 12-character alphabet and a nesting-depth grid are analysed by the real analyzer; it must return, give one token list per line, and every diagnostic must map to an in-bounds, character-aligned position on the line it names.",
         "file contents limited to the recorded menus", "4 C05"),
 "C12": ("exploration", "deviation-bounded exhaustive perturbation (blank insertion/deletion, case flips) of all short token-spelling sequences, compared by token sequence",
         "For every base line of <= n token spellings, every single perturbation and every pair within a 6-byte window (all pairs for 1-spelling lines), plus crunched/spread/lower/upper forms, must tokenize to the same token sequence.",
         "protected regions are marked in the spelling table", "4 C12"),
 "C13": ("exploration", "exhaustive enumeration of lines over an atom alphabet with a re-tokenization oracle",
         "Every concatenation of <= n atoms is tokenized by the real tokenizer; ranges must be in bounds, character-aligned, ordered, blank-free at the ends and re-tokenize to exactly their token; error positions must be in bounds with a tokenizable prefix.",
         "atoms limited to the recorded alphabet", "4 C13"),
 "C14": ("exploration", "exhaustive enumeration of storable lines (token adjacencies, numeral spellings, DATA item lists, REM) with a LIST/reload fixed-point and behaviour oracle",
         "Every enumerated program is stored, listed, reloaded from its listing into a fresh interpreter and listed again; listings, stored tokens, RUN transcripts and the DATA items a reader block sees must be identical.",
         "RUN compared with a 300-turn cap; one recorded known finding (symbol followed by a leading-dot numeral)", "4 C14"),
 "C06": ("exploration", "small-scope exhaustive enumeration of statement contexts x expression trees; analyzer verdict vs execution under every preset",
         "Every statement context x expression tree (<= 1 operator everywhere, <= 2 in the deep contexts; thorough: <= 2 everywhere) is analysed by the real analyzer and executed by the real interpreter under all four variable presets; accepted programs must never fail with syntax / type mismatch / undefined statement, rejected straight-line statements must fail.",
         "programs satisfy the precondition on DEF placement by construction", "4 C06"),
 "C07": ("model_checking", "exhaustive schedule enumeration (all break sets up to k boundaries x inspection menu) on the real interpreter, self-differential against the uninterrupted run",
         "For 10 fixed programs, every set of <= 2 (quick) / 3 (thorough) turn boundaries is used as break points, each with every inspection statement, followed by CONT; the answered-request transcript and outcome must equal the uninterrupted run. The STOP+assignment clause is checked at every line position with 5 assignments.",
         "programs limited to the fixed set; boundaries capped at 60 per program", "4 C07"),
 "C08": ("exploration", "exhaustive enumeration of INPUT placements x targets x replies x REENTER prefixes, self-differential (INPUT vs STOP vs assignment variants)",
         "Every placement (12) x target (4) x reply (12) x unsuitable-reply prefix is run on the real interpreter and compared with the same program where INPUT is replaced by STOP (state at suspension) and by the assignment of the first reply item (resumption).",
         "what a numeric-looking reply becomes in a string variable is not compared", "4 C08"),
 "C09": ("model_checking", "every turn of every enumerated program instrumented with hook counters and kept in stuttering lockstep with the one-statement-per-step reference machine; hand-back at every boundary of non-terminating programs",
         "Per host call: statement entries <= 1 + IF dispatches, <= 1 print record, trace records = entries, token reads within a fixed multiple of the line length; the (output, variables) observable after each call must be reachable by zero or one reference step; 8 non-terminating programs are broken into at each of their first 200 boundaries.",
         "work measured as token-cursor reads (hook counters)", "4 C09"),
 "C10": ("model_checking", "BFS over session histories on the real interpreter with a differential RUN probe in every distinct idle state",
         "For three observer programs, every history up to the depth bound over the dirtying alphabet is explored with canonical-state dedup; in every distinct idle state RUN (same seed, same replies) must produce the transcript and final state of a fresh interpreter holding the same program.",
         "equal canonical snapshots have equal futures", "4 C10"),
 "C11": ("model_checking", "exhaustive enumeration of suspension points x edits x probes (pairs in thorough) on the real interpreter",
         "Every turn boundary of four suspension programs x 7 edits x 8 probes: after a successful edit CONT/RETURN/NEXT/FN/READ must report the stale reference as gone, variables are kept and the snapshot holds no runtime reference; after a rejected edit every probe behaves as without it.",
         "identical-text replacement and deletion of an absent line are not counted as changes", "4 C11"),
 "C15": ("exploration", "exhaustive enumeration of well-formed files (library level) and of all option combinations x both modes on the built abasic binary",
         "Every file of <= 3 (quick) / 4 (thorough) well-formed menu lines is loaded through the analyzer and, separately, typed line by line: LIST, RUN transcript and final state must be equal. The abasic binary is run for 12 programs x 2^3 option sets in file mode and piped mode; stdout, runtime stderr lines and exit status must agree and the options must take effect.",
         "NO_COLOR, piped stdio, scratch HOME; programs do not call RND", "4 C15"),
 "C16": ("model_checking", "invariant checked on the complete state snapshot after every host call of a BFS over a writer-focused alphabet, an exhaustive DIM subscript sweep and cap programs around the limits",
         "J (<=32 frames, <=32 distinct loops, cells = product of dims <= 10000, name-suffix typing of every stored value and binding) is evaluated in every state reached; attempts to exceed a cap must give OUT OF MEMORY and leave the interpreter usable; all 1..3-tuples over 10 boundary subscripts; cap programs for n = 31, 32, 33.",
         "snapshot hook renders every stored value", "4 C16"),
 "C17": ("exploration", "exhaustive enumeration of programs x 8 routes to the 4 (tracing, warnings) configurations; trace and warning records compared with the reference machine",
         "Every grammar program of the families and the fixed programs are run under all eight routes; filtered transcripts, outcomes and final states must be identical, trace records (collapsed) must equal the reference machine's visited lines and warning records its list of undeclared reads.",
         "expectations for trace/warnings come from src/refmodel.rs", "4 C17"),
 "C19": ("model_checking", "BFS over page events where the real main.ts (node vm, types stripped) drives the real JsInterpreter over a synchronous RPC channel, with a mirror core interpreter as oracle",
         "All page event histories up to the depth bound from 9 start-up configurations: no adapter call may panic, the page script may not throw, and every value the adapter returns (state, output records, error text with source line and caret) must equal what the core interpreter produces for the same calls; after NEW the adapter is probed against a fresh one.",
         "ui.ts (DOM) is stubbed; at most two timers pending", "4 C19"),
 "C20": ("exploration", "exhaustive enumeration of open/change/semantic-token histories over a document set against the abasic-lsp binary over stdio, compared with the in-process analyzer (UTF-16 conversion done by the driver)",
         "Every document (<= 2 / 3 menu lines + 40 non-ASCII documents) is opened and tokenised, every ordered pair over a 30-document core is opened then changed; the server must answer every message, diagnostics must equal the analyzer's messages, and all ranges and tokens must lie inside their line in UTF-16 units with legend types.",
         "a missing answer within 8 s counts as a dead server", "4 C20"),
}

NOT_YET = {}

def main():
    props = [json.loads(l) for l in open("/verif/properties.jsonl")]
    checks = []
    na = []
    for p in props:
        pid = p["id"]
        if pid in CHECKS:
            level, tech, text, note, ref = CHECKS[pid]
            checks.append({
                "property_id": pid,
                "quick_cmd": "./check %s --tier quick" % pid,
                "thorough_cmd": "./check %s --tier thorough" % pid,
                "evidence_file": "/verif/evidence/%s.json" % pid,
                "replay_cmd_template": "./check %s --replay {path}" % pid,
                "engine": "mc",
                "level_claimed": {"category": level, "text": text, "design_ref": "DESIGN.md section " + ref},
                "level_note": note,
                "technique": tech,
            })
        else:
            na.append({"property_id": pid, "reason": NOT_YET.get(pid, "check not built yet in this round; no claim is made (see DESIGN.md section 4 for the planned bounded-exhaustive check)")})
    m = {
        "version": 1,
        "setup_cmd": "./check --build",
        "hooks": {
            "guard": "cargo feature verif-hooks (abasic-core)",
            "enable": "the harness crate /verif/mc depends on /repo/abasic-core by path with features=[\"verif-hooks\"]; ./check rebuilds it (cargo, offline) before every run",
            "baseline_off_cmd": "cd /repo && RUST_BACKTRACE=0 cargo test --workspace --no-fail-fast --offline",
            "source_commits": HOOK_COMMITS,
            "add_only": True,
        },
        "engines": [
            {"name": "mc", "path": "/verif/mc", "serves_properties": sorted(CHECKS.keys()),
             "kind_free_text": "Rust harness linking the real abasic-core/abasic-web: layered BFS over host-call histories with replay and canonical-snapshot dedup, small-scope exhaustive enumerators against a reference model (src/refmodel.rs), full 2^33 generator sweep"},
        ],
        "checks": checks,
        "not_applicable": na,
        "notes": "Entry point ./check <ID> --tier quick|thorough. Exit 0 held / 1 VIOLATION / 2 machinery error. Known findings: /verif/known_findings.txt.",
    }
    json.dump(m, open("/verif/MANIFEST.json", "w"), indent=1)
    print("wrote MANIFEST.json with %d checks, %d not_applicable" % (len(checks), len(na)))

main()
