#!/usr/bin/env python3
"""Regenerates MANIFEST.json from the table below (kept in one place so it stays valid)."""
import json, subprocess

HOOK_COMMITS = ["09a7702"]

CHECKS = {
 "C01": ("model_checking", "bounded exhaustive BFS over host-call histories on the real interpreter (canonical-state dedup) + exhaustive line-shape sweep + recursion-depth probe grid in isolated children",
         "Every protocol-respecting host-call history up to the depth bound over a 57-event alphabet (from 4 root states), every line of <= n atoms over 28 atoms, and an 8-route x 7-depth x 2-stack nesting grid were executed on the real code; the oracle is 'call returns, errors are values, state idle, error renders'.",
         "alphabet/bounds as recorded in evidence; texts outside the alphabet are not covered; wedge detection is the wrapper's wall-clock cap", "4 C01"),
 "C02": ("exploration", "small-scope exhaustive enumeration of expression trees against an independent reference fold",
         "All expression trees up to 2 (quick) / 3 (thorough) binary operators with unary/ABS/INT wrappers, each printed with minimal and redundant parentheses by the real interpreter and compared with a reference fold.",
         "f64 Display and powf shared with the subject; arithmetic on two strings and unary plus on a string not compared", "4 C02"),
 "C18": ("model_checking", "full sweep of all 2^33 generator states through the real step function + exhaustive short call sequences through the interpreter",
         "All 2^33 states of the generator are stepped through the real Rng::random and compared with the closed form; seeds beyond 2^33 on a boundary set (thorough: all 2^24 top-bit patterns); every sequence of <= 6 RND calls over 6 argument values x 5 seeds through PRINT.",
         "seeds >= 2^33 rest on the modular-reduction argument plus the enumerated high-bit patterns", "4 C18"),
 "C03": ("exploration", "small-scope exhaustive enumeration of programs (statement sequences x ':'-join layouts) run on the real interpreter and on an independent reference machine",
         "Every statement sequence up to the length bound over a 50-template menu (plus deeper sequences over core menus), in the explored join layouts, is run on the real interpreter and on the reference machine; printed output, error kind and error line must agree.",
         "the reference machine src/refmodel.rs is the oracle; long-running programs are compared on the common output prefix", "4 C03"),
 "C04": ("model_checking", "explicit-state BFS over edit histories on the real interpreter to an empty frontier (full closure) + exhaustive unrolled edit sequences, against a BTreeMap reference",
         "All stores reachable over the edit alphabet (6 number spellings incl. u64 extremes x 5 texts, LIST, RUN) are visited; after every event LIST, RUN order and the two internal indexes are compared with a last-writer-wins map; every sequence of <= 4 (quick) / 6 (thorough) edits over three keys is also run without state merging.",
         "line texts limited to the alphabet", "4 C04"),
 "C05": ("exploration", "small-scope exhaustive enumeration of files (line menu, character alphabet) + nesting grid in isolated children",
         "Every file of <= n menu lines, every string of <= m characters over a 12-character alphabet and a nesting-depth grid are analysed by the real analyzer; it must return, give one token list per line, and every diagnostic must map to an in-bounds, character-aligned position on the line it names.",
         "file contents limited to the recorded menus", "4 C05"),
 "C12": ("exploration", "deviation-bounded exhaustive perturbation (blank insertion/deletion, case flips) of all short token-spelling sequences, compared by token sequence",
         "For every base line of <= n token spellings, every single perturbation and every pair within a 6-byte window (all pairs for 1-spelling lines), plus crunched/spread/lower/upper forms, must tokenize to the same token sequence.",
         "protected regions are marked in the spelling table", "4 C12"),
 "C13": ("exploration", "exhaustive enumeration of lines over an atom alphabet with a re-tokenization oracle",
         "Every concatenation of <= n atoms is tokenized by the real tokenizer; ranges must be in bounds, character-aligned, ordered, blank-free at the ends and re-tokenize to exactly their token; error positions must be in bounds with a tokenizable prefix.",
         "atoms limited to the recorded alphabet", "4 C13"),
 "C14": ("exploration", "exhaustive enumeration of storable lines (token adjacencies, numeral spellings, DATA item lists, REM) with a LIST/reload fixed-point and behaviour oracle",
         "Every enumerated program is stored, listed, reloaded from its listing into a fresh interpreter and listed again; listings, stored tokens, RUN transcripts and the DATA items a reader block sees must be identical.",
         "RUN compared with a 300-turn cap; one recorded known finding (symbol followed by a leading-dot numeral)", "4 C14"),
}

NOT_YET = {}

def main():
    props = [json.loads(l) for l in open("/verif/properties.jsonl")]
    checks = []
    na = []
    for p in props:
        pid = p["id"]
        if pid in CHECKS:
            level, tech, text, note, ref = CHECKS[pid]
            checks.append({
                "property_id": pid,
                "quick_cmd": "./check %s --tier quick" % pid,
                "thorough_cmd": "./check %s --tier thorough" % pid,
                "evidence_file": "/verif/evidence/%s.json" % pid,
                "replay_cmd_template": "./check %s --replay {path}" % pid,
                "engine": "mc",
                "level_claimed": {"category": level, "text": text, "design_ref": "DESIGN.md section " + ref},
                "level_note": note,
                "technique": tech,
            })
        else:
            na.append({"property_id": pid, "reason": NOT_YET.get(pid, "check not built yet in this round; no claim is made (see DESIGN.md section 4 for the planned bounded-exhaustive check)")})
    m = {
        "version": 1,
        "setup_cmd": "./check --build",
        "hooks": {
            "guard": "cargo feature verif-hooks (abasic-core)",
            "enable": "the harness crate /verif/mc depends on /repo/abasic-core by path with features=[\"verif-hooks\"]; ./check rebuilds it (cargo, offline) before every run",
            "baseline_off_cmd": "cd /repo && RUST_BACKTRACE=0 cargo test --workspace --no-fail-fast --offline",
            "source_commits": HOOK_COMMITS,
            "add_only": True,
        },
        "engines": [
            {"name": "mc", "path": "/verif/mc", "serves_properties": sorted(CHECKS.keys()),
             "kind_free_text": "Rust harness linking the real abasic-core/abasic-web: layered BFS over host-call histories with replay and canonical-snapshot dedup, small-scope exhaustive enumerators against a reference model (src/refmodel.rs), full 2^33 generator sweep"},
        ],
        "checks": checks,
        "not_applicable": na,
        "notes": "Entry point ./check <ID> --tier quick|thorough. Exit 0 held / 1 VIOLATION / 2 machinery error. Known findings: /verif/known_findings.txt.",
    }
    json.dump(m, open("/verif/MANIFEST.json", "w"), indent=1)
    print("wrote MANIFEST.json with %d checks, %d not_applicable" % (len(checks), len(na)))

main()
