#!/usr/bin/env python3
"""Regenerates MANIFEST.json from the table below (kept in one place so it stays valid)."""
import json, subprocess

HOOK_COMMITS = ["09a7702"]

CHECKS = {
 "C01": ("model_checking", "bounded exhaustive BFS over host-call histories on the real interpreter (canonical-state dedup) + exhaustive line-shape sweep + recursion-depth probe grid in isolated children",
         "Every protocol-respecting host-call history up to the depth bound over a 57-event alphabet (from 4 root states), every line of <= n atoms over 28 atoms, and an 8-route x 7-depth x 2-stack nesting grid were executed on the real code; the oracle is 'call returns, errors are values, state idle, error renders'.",
         "alphabet/bounds as recorded in evidence; texts outside the alphabet are not covered; wedge detection is the wrapper's wall-clock cap", "4 C01"),
 "C02": ("exploration", "small-scope exhaustive enumeration of expression trees against an independent reference fold",
         "All expression trees up to 2 (quick) / 3 (thorough) binary operators with unary/ABS/INT wrappers, each printed with minimal and redundant parentheses by the real interpreter and compared with a reference fold.",
         "f64 Display and powf shared with the subject; arithmetic on two strings and unary plus on a string not compared", "4 C02"),
 "C18": ("model_checking", "full sweep of all 2^33 generator states through the real step function + exhaustive short call sequences through the interpreter",
         "All 2^33 states of the generator are stepped through the real Rng::random and compared with the closed form; seeds beyond 2^33 on a boundary set (thorough: all 2^24 top-bit patterns); every sequence of <= 6 RND calls over 6 argument values x 5 seeds through PRINT.",
         "seeds >= 2^33 rest on the modular-reduction argument plus the enumerated high-bit patterns", "4 C18"),
}

NOT_YET = {}

def main():
    props = [json.loads(l) for l in open("/verif/properties.jsonl")]
    checks = []
    na = []
    for p in props:
        pid = p["id"]
        if pid in CHECKS:
            level, tech, text, note, ref = CHECKS[pid]
            checks.append({
                "property_id": pid,
                "quick_cmd": "./check %s --tier quick" % pid,
                "thorough_cmd": "./check %s --tier thorough" % pid,
                "evidence_file": "/verif/evidence/%s.json" % pid,
                "replay_cmd_template": "./check %s --replay {path}" % pid,
                "engine": "mc",
                "level_claimed": {"category": level, "text": text, "design_ref": "DESIGN.md section " + ref},
                "level_note": note,
                "technique": tech,
            })
        else:
            na.append({"property_id": pid, "reason": NOT_YET.get(pid, "check not built yet in this round; no claim is made (see DESIGN.md section 4 for the planned bounded-exhaustive check)")})
    m = {
        "version": 1,
        "setup_cmd": "./check --build",
        "hooks": {
            "guard": "cargo feature verif-hooks (abasic-core)",
            "enable": "the harness crate /verif/mc depends on /repo/abasic-core by path with features=[\"verif-hooks\"]; ./check rebuilds it (cargo, offline) before every run",
            "baseline_off_cmd": "cd /repo && RUST_BACKTRACE=0 cargo test --workspace --no-fail-fast --offline",
            "source_commits": HOOK_COMMITS,
            "add_only": True,
        },
        "engines": [
            {"name": "mc", "path": "/verif/mc", "serves_properties": sorted(CHECKS.keys()),
             "kind_free_text": "Rust harness linking the real abasic-core/abasic-web: layered BFS over host-call histories with replay and canonical-snapshot dedup, small-scope exhaustive enumerators against a reference model (src/refmodel.rs), full 2^33 generator sweep"},
        ],
        "checks": checks,
        "not_applicable": na,
        "notes": "Entry point ./check <ID> --tier quick|thorough. Exit 0 held / 1 VIOLATION / 2 machinery error. Known findings: /verif/known_findings.txt.",
    }
    json.dump(m, open("/verif/MANIFEST.json", "w"), indent=1)
    print("wrote MANIFEST.json with %d checks, %d not_applicable" % (len(checks), len(na)))

main()
