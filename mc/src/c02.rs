//! C02 — expressions follow the language's precedence, associativity and typing.
//! Shape B: every expression tree up to a size bound, rendered with minimal and with
//! redundant parentheses, evaluated by the real interpreter and folded by the reference.

use crate::common::*;
use crate::gen::*;
use crate::refmodel::*;
use rayon::prelude::*;
use serde_json::json;
use std::collections::{BTreeMap, HashSet};
use std::sync::Mutex;

#[derive(Clone, Debug)]
enum Shape {
    Leaf,
    Node(Box<Shape>, Box<Shape>),
}

fn shapes(k: usize) -> Vec<Shape> {
    if k == 0 {
        return vec![Shape::Leaf];
    }
    let mut out = vec![];
    for a in 0..k {
        for l in shapes(a) {
            for r in shapes(k - 1 - a) {
                out.push(Shape::Node(Box::new(l.clone()), Box::new(r)));
            }
        }
    }
    out
}

#[derive(Clone, Copy, Debug, PartialEq)]
enum Wrap {
    Plus,
    Neg,
    Not,
    Abs,
    Int,
}
const WRAPS: [Wrap; 5] = [Wrap::Plus, Wrap::Neg, Wrap::Not, Wrap::Abs, Wrap::Int];

fn wrap(w: Wrap, e: Expr) -> Expr {
    match w {
        Wrap::Plus => un(Un::Plus, e),
        Wrap::Neg => un(Un::Neg, e),
        Wrap::Not => un(Un::Not, e),
        Wrap::Abs => Expr::Abs(Box::new(e)),
        Wrap::Int => Expr::Int(Box::new(e)),
    }
}

/// Builds a tree from a shape, consuming operators in pre-order and leaves left to right;
/// nodes are numbered in pre-order and wrapped if listed in `wraps`.
fn build(
    shape: &Shape,
    ops: &[Bin],
    leaves: &[Expr],
    wraps: &[(usize, Wrap)],
    oi: &mut usize,
    li: &mut usize,
    ni: &mut usize,
) -> Expr {
    let my = *ni;
    *ni += 1;
    let mut e = match shape {
        Shape::Leaf => {
            let e = leaves[*li].clone();
            *li += 1;
            e
        }
        Shape::Node(l, r) => {
            let op = ops[*oi];
            *oi += 1;
            let le = build(l, ops, leaves, wraps, oi, li, ni);
            let re = build(r, ops, leaves, wraps, oi, li, ni);
            bin(op, le, re)
        }
    };
    for (n, w) in wraps {
        if *n == my {
            e = wrap(*w, e);
        }
    }
    e
}

/// N = 2, S$ = "A", Q = NaN ((-1)^.5), W = infinity (10^308 * 10).
const PRESET: &str = "N=2:S$=\"A\":Q=-1^.5:W=10^308*10";

fn full_leaves() -> Vec<Expr> {
    vec![
        num(0.0),
        num(1.0),
        num(2.0),
        num(3.0),
        num(0.5),
        st(""),
        st("A"),
        st("B"),
        var("X"),
        var("X$"),
        var("N"),
        var("S$"),
        // boundary magnitudes: a non-zero number below machine epsilon, and the largest power
        // of ten (a 309-digit numeral): x / 0.5 overflows to infinity without dividing by zero
        num(1e-17),
        num(1e308),
        // preset to NaN and to infinity (no numeral spells them): unordered comparisons
        var("Q"),
        var("W"),
    ]
}

fn reduced_leaves() -> Vec<Expr> {
    vec![num(2.0), num(3.0), num(0.0), st("A"), var("X$")]
}

fn model() -> Machine {
    let mut m = Machine::new(Default::default(), 0);
    m.vars.insert("N".into(), Val::N(2.0));
    m.vars.insert("S$".into(), Val::S("A".into()));
    m.vars.insert("Q".into(), Val::N(f64::NAN));
    m.vars.insert("W".into(), Val::N(f64::INFINITY));
    m
}

#[derive(Clone, Debug, PartialEq)]
enum Outcome {
    Printed(String),
    Error(String),
    Panic(String),
    Other(String),
}

fn run_subject(texts: &[String]) -> Vec<Outcome> {
    let mut s = Sess::new();
    let mut none = std::iter::empty();
    let _ = s.run_line(PRESET, &mut none, 100);
    texts
        .iter()
        .map(|t| {
            s.recs.clear();
            let end = s.run_line(&format!("PRINT {}", t), &mut none, 100);
            match end {
                RunEnd::Idle => Outcome::Printed(s.printed()),
                RunEnd::Error(k, _) => Outcome::Error(k),
                RunEnd::Panic(p) => Outcome::Panic(p),
                other => Outcome::Other(format!("{:?}", other)),
            }
        })
        .collect()
}

#[derive(Default)]
struct Acc {
    trees: u64,
    evaluations: u64,
    defined: u64,
    undefined: u64,
    per_size: BTreeMap<usize, u64>,
    values: HashSet<String>,
    errors: BTreeMap<String, u64>,
    violations: Vec<Violation>,
    violating: u64,
    sample: Vec<serde_json::Value>,
}

fn check_tree(e: &Expr, acc: &mut Acc) {
    let min = e.render_min();
    let full = e.render_full();
    let expected = model().eval(e);
    let outs = run_subject(&[min.clone(), full.clone()]);
    acc.trees += 1;
    acc.evaluations += 2;
    *acc.per_size.entry(e.count_bin()).or_insert(0) += 1;
    let want: Option<Outcome> = match &expected {
        Ok(v) => Some(Outcome::Printed(format!("{}\n", v.print()))),
        Err(Fail::Kind(k)) => Some(Outcome::Error(k.to_string())),
        Err(Fail::Undefined(_)) => None,
    };
    match &want {
        Some(Outcome::Printed(p)) => {
            acc.defined += 1;
            if acc.values.len() < 200000 {
                acc.values.insert(p.clone());
            }
        }
        Some(Outcome::Error(k)) => {
            acc.defined += 1;
            *acc.errors.entry(k.clone()).or_insert(0) += 1;
        }
        _ => acc.undefined += 1,
    }
    if acc.sample.len() < 3 && e.count_bin() >= 2 {
        acc.sample.push(json!({"minimal": min, "redundant": full, "reference": format!("{:?}", expected), "subject": format!("{:?}", outs[0])}));
    }
    let mut problem: Option<(String, String)> = None;
    for (which, o) in ["minimal", "redundant"].iter().zip(&outs) {
        if let Outcome::Panic(p) = o {
            problem = Some((format!("panic {}", short_panic(p)), format!("{} rendering panicked: {}", which, p)));
            break;
        }
        if let Outcome::Other(x) = o {
            problem = Some((format!("did not finish {}", x), format!("{} rendering ended with {}", which, x)));
            break;
        }
        if let Some(w) = &want {
            if o != w {
                problem = Some((
                    format!("{} rendering: got {:?} want {:?}", which, o, w),
                    format!("PRINT {} gave {:?}; folding the tree gives {:?}", if *which == "minimal" { &min } else { &full }, o, w),
                ));
                break;
            }
        }
    }
    if problem.is_none() && outs[0] != outs[1] {
        problem = Some((
            format!("renderings disagree: {:?} vs {:?}", outs[0], outs[1]),
            format!("PRINT {} gave {:?} but PRINT {} gave {:?}", min, outs[0], full, outs[1]),
        ));
    }
    if let Some((sig, detail)) = problem {
        acc.violating += 1;
        if acc.violations.len() < 50 {
            acc.violations.push(Violation {
                signature: format!("expr {} :: {}", min, sig),
                detail,
                case: case_history(
                    &[
                        Ev::LineToIdle(PRESET.into()),
                        Ev::Line(format!("PRINT {}", min)),
                        Ev::Line(format!("PRINT {}", full)),
                    ],
                    false,
                    false,
                ),
            });
        }
    }
}

/// Wrapper configurations with at most `maxw` wrappers over `nodes` node positions.
fn wrap_configs(nodes: usize, maxw: usize) -> Vec<Vec<(usize, Wrap)>> {
    let mut out: Vec<Vec<(usize, Wrap)>> = vec![vec![]];
    if maxw >= 1 {
        for n in 0..nodes {
            for w in WRAPS {
                out.push(vec![(n, w)]);
            }
        }
    }
    if maxw >= 2 {
        for n1 in 0..nodes {
            for n2 in (n1 + 1)..nodes {
                for w1 in WRAPS {
                    for w2 in WRAPS {
                        out.push(vec![(n1, w1), (n2, w2)]);
                    }
                }
            }
        }
    }
    out
}

struct Family {
    k: usize,
    leaves: Vec<Expr>,
    /// None = every combination of wrappers at every node (only sensible for k<=1).
    max_wraps: Option<usize>,
}

fn run_family(f: &Family, total: &Mutex<Acc>) {
    let shp = shapes(f.k);
    let nops = ALL_BIN.len() as u64;
    let items: Vec<(usize, u64)> = (0..shp.len())
        .flat_map(|s| (0..pow(nops, f.k)).map(move |o| (s, o)))
        .collect();
    let nodes = 2 * f.k + 1;
    let configs: Vec<Vec<(usize, Wrap)>> = match f.max_wraps {
        Some(m) => wrap_configs(nodes, m),
        None => {
            // all assignments of {none, 5 wrappers} to each node
            let mut out = vec![];
            for i in 0..pow(6, nodes) {
                let d = decode_seq(i, 6, nodes);
                let mut c = vec![];
                for (n, w) in d.iter().enumerate() {
                    if *w > 0 {
                        c.push((n, WRAPS[*w - 1]));
                    }
                }
                out.push(c);
            }
            out
        }
    };
    let nl = f.leaves.len() as u64;
    items.par_iter().for_each(|(si, oi)| {
        let mut acc = Acc::default();
        let ops: Vec<Bin> = decode_seq(*oi, nops, f.k).iter().map(|i| ALL_BIN[*i]).collect();
        for li in 0..pow(nl, f.k + 1) {
            let leaves: Vec<Expr> = decode_seq(li, nl, f.k + 1)
                .iter()
                .map(|i| f.leaves[*i].clone())
                .collect();
            for c in &configs {
                let (mut a, mut b, mut n) = (0, 0, 0);
                let e = build(&shp[*si], &ops, &leaves, c, &mut a, &mut b, &mut n);
                check_tree(&e, &mut acc);
            }
        }
        let mut t = total.lock().unwrap();
        t.trees += acc.trees;
        t.evaluations += acc.evaluations;
        t.defined += acc.defined;
        t.undefined += acc.undefined;
        for (k, v) in acc.per_size {
            *t.per_size.entry(k).or_insert(0) += v;
        }
        if t.values.len() < 200000 {
            t.values.extend(acc.values);
        }
        for (k, v) in acc.errors {
            *t.errors.entry(k).or_insert(0) += v;
        }
        t.violating += acc.violating;
        if t.violations.len() < 400 {
            t.violations.extend(acc.violations);
        }
        if t.sample.len() < 3 {
            t.sample.extend(acc.sample);
        }
    });
}

/// All trees with <= 1 operator (wrappers everywhere), in chunks; each chunk goes through one
/// interpreter sequentially and is compared with fresh-interpreter evaluation.
fn session_pass(total: &Mutex<Acc>, prelude: &[&str]) -> u64 {
    let leaves = full_leaves();
    let mut texts: Vec<String> = vec![];
    let shp = shapes(1);
    for op in ALL_BIN {
        for a in &leaves {
            for b in &leaves {
                for c in wrap_configs(3, 1) {
                    let (mut x, mut y, mut z) = (0, 0, 0);
                    let e = build(&shp[0], &[op], &[a.clone(), b.clone()], &c, &mut x, &mut y, &mut z);
                    texts.push(e.render_full());
                }
            }
        }
    }
    let n = texts.len() as u64;
    texts.par_chunks(3000).for_each(|chunk| {
        let mut s = Sess::new();
        let mut none = std::iter::empty();
        let mut hist = vec![];
        // optional prelude: a program that DEFines functions named like the builtins has run
        for l in prelude {
            let _ = s.run_line(l, &mut none, 100);
            hist.push(Ev::LineToIdle(l.to_string()));
        }
        let _ = s.run_line(PRESET, &mut none, 100);
        hist.push(Ev::LineToIdle(PRESET.into()));
        for t in chunk {
            let line = format!("PRINT {}", t);
            s.recs.clear();
            let end = s.run_line(&line, &mut none, 100);
            hist.push(Ev::LineToIdle(line.clone()));
            let got = match end {
                RunEnd::Idle => Outcome::Printed(s.printed()),
                RunEnd::Error(k, _) => Outcome::Error(k),
                RunEnd::Panic(p) => Outcome::Panic(p),
                other => Outcome::Other(format!("{:?}", other)),
            };
            let fresh = run_subject(&[t.clone()]).pop().unwrap();
            if got != fresh {
                let mut t2 = total.lock().unwrap();
                t2.violating += 1;
                if t2.violations.len() < 400 {
                    // keep the replay short: the last 80 lines of the session
                    let tail: Vec<Ev> = hist.iter().rev().take(400).rev().cloned().collect();
                    t2.violations.push(Violation {
                        signature: format!("expr {} :: in a long session got {:?}, fresh interpreter gives {:?}", t, got, fresh),
                        detail: format!("after {} earlier PRINT lines in the same interpreter, PRINT {} gave {:?}; a fresh interpreter gives {:?} (replay holds the last lines of the session; the full session is the enumeration order of all one-operator trees)", hist.len() - 1, t, got, fresh),
                        case: case_history(&tail, false, false),
                    });
                }
                return;
            }
        }
    });
    n
}

/// Numeral pass: the value of a numeric literal is the IEEE-754 double nearest to its decimal
/// spelling. Every digit string of 1..=21 digits from four digit patterns, with the decimal
/// point at every position, alone and as the operand of one comparison and one sum.
fn numeral_pass(total: &Mutex<Acc>) -> u64 {
    let patterns = ["9", "1234567890", "9128664552774769", "7205759403792794", "4503599627370497", "10000000000000001"];
    let mut lits: Vec<String> = vec![];
    for pat in patterns {
        for len in 1..=21usize {
            let digits: String = pat.chars().cycle().take(len).collect();
            for point in 0..=len {
                let lit = if point == len { digits.clone() } else { format!("{}.{}", &digits[..point], &digits[point..]) };
                lits.push(lit);
            }
        }
    }
    lits.sort();
    lits.dedup();
    let n = lits.len() as u64;
    let bad: Vec<Violation> = lits
        .par_chunks(64)
        .flat_map(|chunk| {
            let mut out = vec![];
            let mut texts: Vec<String> = vec![];
            for l in chunk {
                texts.push(l.clone());
                texts.push(format!("{} + 0", l));
                texts.push(format!("0 - {}", l));
            }
            let got = run_subject(&texts);
            for (i, l) in chunk.iter().enumerate() {
                let v: f64 = match l.parse::<f64>() {
                    Ok(v) => v,
                    Err(_) => continue,
                };
                let want = [format!("{}\n", v), format!("{}\n", v + 0.0), format!("{}\n", 0.0 - v)];
                for k in 0..3 {
                    let g = &got[3 * i + k];
                    if *g != Outcome::Printed(want[k].clone()) {
                        out.push(Violation {
                            signature: format!("expr {} :: numeral value {:?} expected {:?}", texts[3 * i + k], g, want[k]),
                            detail: format!("PRINT {} gave {:?}; the double nearest to the literal prints as {:?}", texts[3 * i + k], g, want[k]),
                            case: case_history(&[Ev::LineToIdle(PRESET.into()), Ev::LineToIdle(format!("PRINT {}", texts[3 * i + k]))], false, false),
                        });
                        break;
                    }
                }
            }
            out
        })
        .collect();
    let mut t = total.lock().unwrap();
    t.violating += bad.len() as u64;
    t.evaluations += 3 * n;
    for v in bad.into_iter().take(50) {
        t.violations.push(v);
    }
    n
}

/// String pass: comparisons and the logical operators over every ordered pair (and NOT over
/// every member) of a string set chosen to separate byte-wise lexicographic order from its
/// look-alikes (length first, case folded, locale collation, numeric reading), plus the
/// number-like values that count as true.
fn string_pass(total: &Mutex<Acc>) -> u64 {
    let strs = ["", "A", "B", "AB", "a", "b", "Z", "\u{e9}", "z", " ", "A ", "1", "10", "9", "0", "-1"];
    let nums = [0.0, 1.0, -1.0, 0.5, -0.0, 1e-320, 2.0];
    let mut exprs: Vec<Expr> = vec![];
    for op in [Bin::Eq, Bin::Ne, Bin::Lt, Bin::Le, Bin::Gt, Bin::Ge, Bin::And, Bin::Or] {
        for a in strs {
            for b in strs {
                exprs.push(bin(op, st(a), st(b)));
            }
        }
        for a in nums {
            for b in nums {
                exprs.push(bin(op, num(a), num(b)));
            }
            for b in strs.iter().take(3) {
                exprs.push(bin(op, num(a), st(b)));
                exprs.push(bin(op, st(b), num(a)));
            }
        }
    }
    // whole and fractional powers whose exact value does not fit a double's mantissa
    for a in [2.0, 3.0, 5.0, 7.0, 10.0, 11.0, 15.0, 1.5, 0.1] {
        for b in (0..=45).map(|x| x as f64).chain([64.0, 100.0, 308.0, 1023.0, 1024.0, 0.5, 2.5]) {
            exprs.push(bin(Bin::Pow, num(a), num(b)));
            exprs.push(bin(Bin::Pow, bin(Bin::Sub, num(0.0), num(a)), num(b)));
            exprs.push(bin(Bin::Pow, num(a), bin(Bin::Sub, num(0.0), num(b))));
        }
    }
    // ABS and INT at the edges of the integer range and beyond
    for t in ["9007199254740993", "9223372036854775807", "9223372036854775808", "10000000000000000000", "18446744073709551616", "1e30", ".5", "2.5", "0"] {
        let v: f64 = t.parse().unwrap();
        for e in [num(v), bin(Bin::Sub, num(0.0), num(v)), bin(Bin::Add, num(v), num(0.5)), bin(Bin::Sub, num(0.0), bin(Bin::Add, num(v), num(0.5))), bin(Bin::Mul, num(v), var("W")), bin(Bin::Mul, num(0.0), bin(Bin::Mul, num(v), var("W")))] {
            exprs.push(Expr::Int(Box::new(e.clone())));
            exprs.push(Expr::Abs(Box::new(e)));
        }
    }
    exprs.push(Expr::Int(Box::new(un(Un::Neg, num(0.0)))));
    exprs.push(Expr::Abs(Box::new(un(Un::Neg, num(0.0)))));
    for a in strs {
        exprs.push(un(Un::Not, st(a)));
    }
    for a in nums {
        // (a negative numeral is itself a unary minus, and only a single unary is in the language)
        if a.is_sign_positive() {
            exprs.push(un(Un::Not, num(a)));
        }
    }
    let n = exprs.len() as u64;
    exprs.par_chunks(64).for_each(|chunk| {
        let mut acc = Acc::default();
        for e in chunk {
            check_tree(e, &mut acc);
        }
        let mut t = total.lock().unwrap();
        t.trees += acc.trees;
        t.evaluations += acc.evaluations;
        t.defined += acc.defined;
        t.undefined += acc.undefined;
        t.violating += acc.violating;
        for (k, v) in acc.per_size {
            *t.per_size.entry(k).or_insert(0) += v;
        }
        for (k, v) in acc.errors {
            *t.errors.entry(k).or_insert(0) += v;
        }
        t.values.extend(acc.values);
        if t.violations.len() < 400 {
            t.violations.extend(acc.violations);
        }
    });
    n
}

pub fn run(thorough: bool) -> Report {
    let mut rep = Report::new("C02", "exploration");
    let total = Mutex::new(Acc::default());

    // Which operator pairs have a tree that tells left- from right-grouping apart?
    let lv = full_leaves();
    let mut distinguishing: BTreeMap<String, u64> = BTreeMap::new();
    for &op1 in &ALL_BIN {
        for &op2 in &ALL_BIN {
            let mut n = 0u64;
            for a in &lv {
                for b in &lv {
                    for c in &lv {
                        let l = model().eval(&bin(op2, bin(op1, a.clone(), b.clone()), c.clone()));
                        let r = model().eval(&bin(op1, a.clone(), bin(op2, b.clone(), c.clone())));
                        let defined = |x: &Result<Val, Fail>| !matches!(x, Err(Fail::Undefined(_)));
                        if defined(&l) && defined(&r) && format!("{:?}", l) != format!("{:?}", r) {
                            n += 1;
                        }
                    }
                }
            }
            distinguishing.insert(format!("{} then {}", op1.text(), op2.text()), n);
        }
    }
    // Pairs whose two groupings are equal in exact arithmetic (a+(b-c) = (a+b)-c, …) cannot
    // be told apart by value; they are reported, and the run is vacuous only if some operator
    // has no distinguishing pair at all.
    let insensitive: Vec<String> = distinguishing
        .iter()
        .filter(|(_, n)| **n == 0)
        .map(|(p, _)| p.clone())
        .collect();
    for op in &ALL_BIN {
        let as_first = distinguishing
            .iter()
            .any(|(p, n)| *n > 0 && p.starts_with(&format!("{} then", op.text())));
        let as_second = distinguishing
            .iter()
            .any(|(p, n)| *n > 0 && p.ends_with(&format!("then {}", op.text())));
        if !as_first || !as_second {
            machinery(&format!("vacuous: no tree distinguishes groupings involving {}", op.text()));
        }
    }
    if insensitive.len() > 12 {
        machinery("vacuous: too many operator pairs without a distinguishing tree");
    }

    let mut families = vec![
        Family { k: 0, leaves: full_leaves(), max_wraps: None },
        Family { k: 1, leaves: full_leaves(), max_wraps: None },
        Family { k: 2, leaves: full_leaves(), max_wraps: Some(0) },
        Family { k: 2, leaves: reduced_leaves(), max_wraps: Some(1) },
    ];
    if thorough {
        families.push(Family { k: 3, leaves: reduced_leaves(), max_wraps: Some(0) });
        families.push(Family { k: 2, leaves: full_leaves(), max_wraps: Some(1) });
        families.push(Family { k: 2, leaves: reduced_leaves(), max_wraps: Some(2) });
    }
    let mut fam_desc = vec![];
    for f in &families {
        run_family(f, &total);
        fam_desc.push(json!({"binary_operators": f.k, "leaves": f.leaves.len(),
            "wrappers": match f.max_wraps { None => "every node: none|+|-|NOT|ABS|INT".to_string(), Some(m) => format!("at most {} wrapped node(s)", m)}}));
    }
    // Session pass: the same expressions evaluated one after the other in long-lived
    // interpreters (non-initial states: hundreds of earlier successes and failures) must
    // give what a fresh interpreter gives.
    let session = session_pass(&total, &[]) + session_pass(&total, &["10 DEF ABS(X)=X*2: DEF INT(N)=N+100", "RUN"]);
    let numerals = numeral_pass(&total);
    let string_exprs = string_pass(&total);
    let acc = total.into_inner().unwrap();
    if acc.errors.len() < 2 || acc.values.len() < 10 {
        machinery("vacuous: too few distinct outcomes");
    }
    let mut v = acc.violations;
    v.sort_by(|a, b| a.signature.len().cmp(&b.signature.len()).then(a.signature.cmp(&b.signature)));
    // Group by outcome shape so one root cause does not flood the report.
    let mut seen = HashSet::new();
    for x in v {
        let key = x.signature.split(" :: ").nth(1).unwrap_or("").to_string();
        let key: String = key.chars().filter(|c| !c.is_ascii_digit()).collect();
        if seen.insert(key) {
            rep.violations.push(x);
        }
    }
    rep.violating_cases = acc.violating;
    rep.coverage = json!({
        "evaluations": acc.evaluations,
        "distinct_nontrivial": acc.defined - acc.per_size.get(&0).copied().unwrap_or(0).min(acc.defined),
        "rule": "all expression trees per family (shape x operator tuple x leaf tuple x wrapper configuration), each distinct by construction; non-trivial = at least one binary operator and an outcome the reference defines",
        "exhaustive": true,
        "trees": acc.trees,
        "session_pass_expressions_in_long_lived_interpreters": session,
        "numeral_spellings_checked_against_the_nearest_double": numerals,
        "string_and_truth_value_expressions": string_exprs,
        "trees_per_operator_count": acc.per_size,
        "families": fam_desc,
        "reference_defined": acc.defined,
        "reference_undefined_not_compared": acc.undefined,
        "distinct_printed_values": acc.values.len(),
        "error_kinds": acc.errors,
        "operator_pairs_with_grouping_distinguishing_trees": distinguishing.values().filter(|n| **n > 0).count(),
        "operator_pairs_equal_under_both_groupings_in_exact_arithmetic": insensitive,
        "samples": acc.sample,
    });
    rep.assumptions = vec![
        "number formatting (f64 Display) and powf are shared with the subject by design".into(),
        "arithmetic on two strings is not defined by the property and is executed but not compared".into(),
    ];
    rep
}
