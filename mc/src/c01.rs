//! C01 — no host interaction sequence can crash or wedge the interpreter.
//! (1) protocol BFS on the real interpreter, (2) line-shape sweep, (3) recursion-depth
//! probes in isolated child processes.

use crate::bfs::*;
use crate::common::*;
use crate::gen::*;
use abasic_core::InterpreterState;
use rayon::prelude::*;
use serde_json::json;
use std::collections::BTreeMap;

pub fn idle_lines() -> Vec<&'static str> {
    vec![
        // numbered lines
        "10 PRINT 1",
        "10",
        "20 INPUT X",
        "30 STOP",
        "40 GOSUB 40",
        "50 DEF FNA(X)=FNA(X)",
        "60 FOR I=1 TO 2",
        "70 NEXT I",
        "80 DATA 1,\"a\"",
        "0 PRINT 0",
        "18446744073709551615 PRINT 1",
        "18446744073709551616 PRINT 1",
        // commands
        "RUN",
        "CONT",
        "LIST",
        "NEW",
        "TRACE",
        "NOTRACE",
        "INTERNALS",
        "STATS",
        // immediate statements with boundary numerals
        "DIM A(4294967295,4294967295)",
        "DIM B(9223372036854775807)",
        "DIM C(99,100)",
        "DIM E(1,9223372036854775807)",
        "IF 1 THEN PRINT ((1/0))",
        "IF 0 THEN PRINT 1 ELSE RETURN",
        // STOP as the statement of a clause; a loop opened at the prompt whose line is then replaced
        // by a shorter one
        "IF 1 THEN STOP",
        "FOR I=1 TO 2: PRINT I",
        "DIM D(1,1,1,1,1,1,1,1,1,1,1,1,1,1,1,1,1,1,1,1)",
        "A(1)=1",
        "PRINT A(4294967296)",
        // a huge subscript on a later axis (its offset is the subscript times the earlier axes' size)
        "X=M(0,4611686018427387904): L(1,2,9223372036854775807)=5",
        // an array nobody dimensioned, used with twenty subscripts
        "PRINT Z(0,0,0,0,0,0,0,0,0,0,0,0,0,0,0,0,0,0,0,0)",
        "PRINT A(-1)",
        "PRINT 1/0",
        "PRINT RND(1)",
        "PRINT FNA(1)",
        "READ Q",
        "RETURN",
        "NEXT I",
        "GOTO 18446744073709551615",
        "GOTO 1E30",
        "GOTO 20",
        "GOSUB 30",
        "X$=1",
        "PRINT \"é",
        "%",
        "\"\"",
        "",
        " ",
        "PRINT 1\nPRINT 2",
        "INPUT A(2)",
        // not-a-number and infinity as operands (from arithmetic or from a reply)
        "X=-1^.5: Y=10^308*10",
        "PRINT X<1;X=X;X<>X;Y>X;A(X)",
        "INPUT X",
        "FOR X=X TO Y STEP X",
        // commands followed by text (the command processor looks at the first word)
        // deleting lines (one of them holds the DATA a cursor may point into)
        "80",
        "LIST 30-10",
        "LIST 18446744073709551615,0",
        "RUN 30",
        "CONT 1",
    ]
}

/// Where the caret line must point for a line that does not tokenize: under the character the
/// tokenizer stopped at (counted in characters of the line as entered).
pub fn expected_caret_column(entered: &str) -> Option<usize> {
    let skip = abasic_core::verif::parse_line_number(entered).map(|(_, e)| e).unwrap_or(0);
    match abasic_core::verif::tokenize_skipping(entered, skip) {
        Err(e) if e.range.start <= entered.len() && entered.is_char_boundary(e.range.start) => Some(entered[..e.range.start].chars().count()),
        _ => None,
    }
}

pub fn alphabet() -> Vec<Ev> {
    let mut a: Vec<Ev> = idle_lines().into_iter().map(|l| Ev::Line(l.to_string())).collect();
    a.push(Ev::Cont);
    a.push(Ev::Break);
    for r in ["5", "x", "", "\"", "1,2", "é:", "nan", "-inf"] {
        a.push(Ev::Input(r.to_string()));
    }
    a.push(Ev::Replace);
    a.push(Ev::StopEvaluating);
    for s in [0u64, 1 << 44, u64::MAX, u64::MAX / 1664525 - 200] {
        a.push(Ev::Randomize(s));
    }
    a
}

/// Oracle on one transition.
pub fn check_transition(t: &Transition, s: &mut Sess) -> Vec<Violation> {
    let mut out = vec![];
    let mut hist: Vec<Ev> = t.hist.to_vec();
    hist.push(t.ev.clone());
    let mk = |sig: String, detail: String| Violation {
        signature: sig,
        detail,
        case: case_history(&hist, false, false),
    };
    match t.result {
        CallResult::Panic(p) => {
            out.push(mk(
                format!("panic {}", short_panic(p)),
                format!("host call {:?} panicked: {}", t.ev, p),
            ));
        }
        CallResult::Err(k, _) => {
            if s.state() != InterpreterState::Idle {
                out.push(mk(
                    format!("not idle after error {}", k),
                    format!("after error {} the state is {:?}", k, s.state()),
                ));
            }
            if let Some(e) = s.last_err.take() {
                let line = s.last_line.clone();
                let it = &s.it;
                let r = guarded(|| {
                    let text = e.to_string();
                    let caret = e.get_line_with_pointer_caret(it, line.as_ref());
                    (text, caret)
                });
                match r {
                    Err(p) => out.push(mk(
                        format!("error rendering panicked {}", short_panic(&p)),
                        format!("rendering error {} panicked: {}", k, p),
                    )),
                    Ok((text, caret)) => {
                        if text.is_empty() {
                            out.push(mk("empty error text".into(), format!("error {} renders as empty text", k)));
                        }
                        // the rendering is the offending source line plus a pointer under it
                        // (decoration is the renderer's business: only a source line followed by a
                        // line that holds a caret and is not longer than needed is asked for)
                        let pointer_ok = caret.len() == 2 && caret[1].contains('^') && caret[1].trim_end().chars().count() <= caret[0].chars().count().max(1) + 4;
                        let is_tok = k.contains("Tokenization");
                        // CONT is refused by the command processor: there is no statement to point at
                        let command_level = caret.is_empty() && k == "CannotContinue";
                        if command_level {
                        } else if !pointer_ok {
                            out.push(mk(
                                format!("error {} is not rendered as a source line plus a caret", k.split('(').next().unwrap_or(k)),
                                format!("error {} after {:?} renders as {:?}", k, t.ev, caret),
                            ));
                        } else if is_tok {
                            // a line that does not tokenize is not part of any program: the line shown
                            // is the one just entered, whatever happened before
                            let entered = line.clone().unwrap_or_default();
                            if !caret[0].contains(entered.as_str()) || *t.result != CallResult::Err(k.clone(), None) {
                                out.push(mk(
                                    "tokenization error not attributed to the line just entered".into(),
                                    format!("entering {:?} gave {:?}, rendered as {:?}", entered, t.result, caret),
                                ));
                            } else if let (Some(col), Some(off)) = (expected_caret_column(&entered), caret[0].find(entered.as_str())) {
                                let shown = caret[0][..off].chars().count() + col;
                                if caret[1].chars().position(|c| c == '^') != Some(shown) {
                                    out.push(mk(
                                        "caret of a tokenization error is not under the offending character".into(),
                                        format!("entering {:?}: the tokenizer stops at character {}, rendered as {:?}", entered, col, caret),
                                    ));
                                }
                            }
                        }
                    }
                }
            }
        }
        CallResult::Ok => {}
    }
    // wedged: asked to go on while running with the cursor at (or beyond) the end of its line - so
    // there is no statement left to evaluate there - the interpreter neither moves to another line
    // nor goes idle, emits nothing and is left exactly as it was; being deterministic it will
    // answer every later call the same way
    if matches!(t.ev, Ev::Cont) && matches!(t.result, CallResult::Ok) && t.before.state == format!("{:?}", InterpreterState::Running) && s.recs.is_empty() {
        let on_line = match t.before.location_line {
            Some(l) => t.before.lines.iter().find(|(n, _)| *n == l).map(|(_, toks)| toks.len()).unwrap_or(0),
            None => t.before.immediate_line.len(),
        };
        if t.before.location_token_index >= on_line && guarded(|| s.it.verif_snapshot()).ok().as_ref() == Some(t.before) {
            let r = s.apply(&Ev::Cont);
            if r == CallResult::Ok && s.recs.is_empty() && guarded(|| s.it.verif_snapshot()).ok().as_ref() == Some(t.before) {
                out.push(mk(
                    "wedged: a continue call at the end of a line goes nowhere".into(),
                    format!("in state Running at line {:?}, token {} of {} (nothing left to evaluate there), continue_evaluating returns Ok twice in a row without moving on, going idle, emitting output or changing any state: the session can never get back to the prompt by itself", t.before.location_line, t.before.location_token_index, on_line),
                ));
            }
        }
    }
    if !matches!(t.result, CallResult::Panic(_)) {
        if let Ok(snap) = guarded(|| s.it.verif_snapshot()) {
            if snap.nesting_depth != 0 {
                out.push(mk(
                    "nesting budget not restored after a call".into(),
                    format!("after {:?} the nesting-depth counter stands at {} (each such call permanently shrinks the nesting the interpreter accepts until every expression is refused)", t.ev, snap.nesting_depth),
                ));
            }
        }
    }
    out
}

fn seeded_roots() -> Vec<Vec<Ev>> {
    let l = |s: &str| Ev::Line(s.to_string());
    vec![
        vec![],
        // program loaded
        vec![l("10 PRINT 1"), l("20 INPUT X"), l("30 STOP"), l("80 DATA 1,\"a\"")],
        // stopped at a breakpoint inside GOSUB + FOR
        vec![
            l("10 FOR I=1 TO 2"),
            l("20 GOSUB 40"),
            l("30 NEXT I"),
            l("40 STOP"),
            l("50 RETURN"),
            l("RUN"),
            Ev::Cont,
            Ev::Cont,
        ],
        // awaiting input
        vec![l("20 INPUT X"), l("30 PRINT X"), l("RUN")],
    ]
}

// ---------------------------------------------------------------------------------------
// (2) line-shape sweep

fn atoms() -> Vec<&'static str> {
    vec![
        "PRINT", "INPUT", "IF", "THEN", "ELSE", "GOTO", "FOR", "NEXT", "X", "A$", "(", ")", ",",
        "=", "<", "12", ".", "1.5.", "\"", "é", "%", " ", ":", "REM", "DATA", "DEF", "FNA", "-", "\u{a0}", "\u{ff12}", "\u{c}", "\u{3000}",
    ]
}

fn run_shape(text: &str) -> Vec<(String, Vec<Ev>)> {
    // returns problems as (signature, history)
    let mut problems = vec![];
    for numbered in [false, true] {
        let mut s = Sess::new();
        let mut hist = vec![];
        let first = if numbered { format!("10 {}", text) } else { text.to_string() };
        let mut pending: Vec<String> = vec![first];
        if numbered {
            pending.push("RUN".into());
        }
        'outer: for l in pending {
            let ev = Ev::Line(l);
            hist.push(ev.clone());
            let mut r = s.apply(&ev);
            let mut turns = 0;
            let mut replies = 0;
            loop {
                match &r {
                    CallResult::Panic(p) => {
                        problems.push((format!("panic {}", short_panic(p)), hist.clone()));
                        break 'outer;
                    }
                    CallResult::Err(_, _) => {
                        if s.state() != InterpreterState::Idle {
                            problems.push(("not idle after error".into(), hist.clone()));
                            break 'outer;
                        }
                        if let Some(e) = s.last_err.take() {
                            let line = s.last_line.clone();
                            let it = &s.it;
                            match guarded(|| {
                                let _ = e.to_string();
                                e.get_line_with_pointer_caret(it, line.as_ref())
                            }) {
                                Err(p) => {
                                    problems.push((format!("error rendering panicked {}", short_panic(&p)), hist.clone()));
                                    break 'outer;
                                }
                                Ok(caret) => {
                                    // a line that does not tokenize: the caret stands under the character
                                    // the tokenizer stopped at
                                    if let (Some(entered), true) = (line.as_ref(), caret.len() == 2) {
                                        if let (Some(col), Some(off)) = (expected_caret_column(entered), caret[0].find(entered.as_str())) {
                                            let shown = caret[0][..off].chars().count() + col;
                                            if format!("{:?}", e.error).contains("Tokenization") && caret[1].chars().position(|c| c == '^') != Some(shown) {
                                                problems.push(("caret of a tokenization error is not under the offending character".into(), hist.clone()));
                                                break 'outer;
                                            }
                                        }
                                    }
                                }
                            }
                        }
                    }
                    CallResult::Ok => {}
                }
                match s.state() {
                    InterpreterState::Idle => break,
                    InterpreterState::NewInterpreterRequested => {
                        hist.push(Ev::Replace);
                        r = s.apply(&Ev::Replace);
                    }
                    InterpreterState::Running => {
                        turns += 1;
                        if turns > 10000 {
                            break;
                        }
                        hist.push(Ev::Cont);
                        r = s.apply(&Ev::Cont);
                    }
                    InterpreterState::AwaitingInput => {
                        replies += 1;
                        let ev = if replies > 3 { Ev::Break } else { Ev::Input("5".into()) };
                        hist.push(ev.clone());
                        r = s.apply(&ev);
                    }
                }
            }
        }
    }
    problems
}

// ---------------------------------------------------------------------------------------
// (3) recursion-depth probes

pub const ROUTES: [&str; 17] = [
    "paren", "neg_paren", "not_paren", "abs", "array", "fn", "if_then", "eq_chain", "fn_recursive_paren", "fn_recursive_args", "if_then_paren",
    // runs of prefix operators and of other tokens without any bracket between them
    "neg_chain", "not_chain", "plus_minus_chain", "pow_chain",
    // IFs chained through their ELSE clauses, and through both clauses alternately
    "if_else", "if_then_else_mix",
];

pub fn nested_line(route: &str, depth: usize) -> (Vec<String>, String) {
    // (setup lines, probe line)
    match route {
        "paren" => (vec![], format!("X={}1{}", "(".repeat(depth), ")".repeat(depth))),
        "neg_paren" => (vec![], format!("X={}1{}", "-(".repeat(depth), ")".repeat(depth))),
        "not_paren" => (vec![], format!("X={}1{}", "NOT(".repeat(depth), ")".repeat(depth))),
        "abs" => (vec![], format!("X={}1{}", "ABS(".repeat(depth), ")".repeat(depth))),
        "array" => (vec![], format!("X={}1{}", "A(".repeat(depth), ")".repeat(depth))),
        "fn" => (
            vec!["10 DEF FNA(X)=X".to_string(), "RUN".to_string()],
            format!("X={}1{}", "FNA(".repeat(depth), ")".repeat(depth)),
        ),
        "if_then" => (vec![], format!("{}X=1", "IF 1 THEN ".repeat(depth))),
        // a recursive function whose body is itself nested `depth` deep: frames x nesting
        "fn_recursive_paren" => (
            vec![format!("10 DEF FNR(X)={}FNR(X){}", "(".repeat(depth), ")".repeat(depth)), "RUN".to_string()],
            "X=FNR(1)".to_string(),
        ),
        "fn_recursive_args" => (
            vec![format!("10 DEF FNR(X)={}FNR(X){}", "ABS(".repeat(depth), ")".repeat(depth)), "20 DEF FNS(X)=FNR(FNS(X))".to_string(), "RUN".to_string()],
            "X=FNS(1)".to_string(),
        ),
        "if_then_paren" => (vec![], format!("{}X={}1{}", "IF 1 THEN ".repeat(depth), "(".repeat(depth), ")".repeat(depth))),
        "if_else" => (vec![], format!("{}X=1", "IF 0 THEN X=2 ELSE ".repeat(depth))),
        "if_then_else_mix" => (vec![], format!("{}X=1", "IF 1 THEN IF 0 THEN X=2 ELSE ".repeat(depth))),
        "neg_chain" => (vec![], format!("X={}1", "-".repeat(depth))),
        "not_chain" => (vec![], format!("X={}1", "NOT ".repeat(depth))),
        "plus_minus_chain" => (vec![], format!("PRINT {}1", "+-".repeat(depth))),
        "pow_chain" => (vec![], format!("X=1{}", "^1".repeat(depth))),
        _ => (vec![], format!("X=1{}", "=1".repeat(depth))),
    }
}

fn probe_body(route: &str, depth: usize, target: &str) -> i32 {
    let (setup, line) = nested_line(route, depth);
    if target == "analyzer" {
        let mut text = String::new();
        for l in &setup {
            if l != "RUN" {
                text.push_str(l);
                text.push('\n');
            }
        }
        text.push_str(&format!("20 {}", line));
        let r = guarded(|| {
            let a = abasic_core::SourceFileAnalyzer::analyze(text);
            a.messages().len()
        });
        return if r.is_ok() { 0 } else { 3 };
    }
    let mut s = Sess::new();
    let mut none = std::iter::empty();
    for l in &setup {
        let _ = s.run_line(l, &mut none, 100);
    }
    // "FNA" is only defined while the program's DEF has run and nothing was edited since.
    match s.run_line(&line, &mut none, 1000000) {
        RunEnd::Panic(_) => 3,
        _ => 0,
    }
}

/// `mc --child <route> <depth> <stack_kib|main> <interpreter|analyzer>`
pub fn child_main(args: &[String]) -> i32 {
    let route = args[0].clone();
    let depth: usize = args[1].parse().unwrap_or(1);
    let target = args.get(3).cloned().unwrap_or_else(|| "interpreter".into());
    if args[2] == "main" {
        probe_body(&route, depth, &target)
    } else {
        let kib: usize = args[2].parse().unwrap_or(1024);
        let h = std::thread::Builder::new()
            .stack_size(kib * 1024)
            .spawn(move || probe_body(&route, depth, &target))
            .unwrap();
        h.join().unwrap_or(3)
    }
}

pub fn depth_grid() -> Vec<usize> {
    vec![10, 30, 60, 100, 1000, 3000, 10000, 30000, 100000]
}

/// Runs the probe grid; returns (children run, violations).
pub fn recursion_probes(target: &str) -> (u64, Vec<Violation>) {
    recursion_probes_for(target, &ROUTES)
}

/// The same grid over some of the routes.
pub fn recursion_probes_for(target: &str, routes: &[&'static str]) -> (u64, Vec<Violation>) {
    let exe = std::env::current_exe().unwrap();
    let mut jobs = vec![];
    for route in routes.iter().copied() {
        for d in depth_grid() {
            for stack in ["main", "1024"] {
                jobs.push((route, d, stack));
            }
        }
    }
    let results: Vec<(&str, usize, &str, String)> = jobs
        .par_iter()
        .map(|(route, d, stack)| {
            let out = std::process::Command::new(&exe)
                .args(["--child", route, &d.to_string(), stack, target])
                .env("RUST_BACKTRACE", "0")
                .stdout(std::process::Stdio::null())
                .stderr(std::process::Stdio::null())
                .status();
            let verdict = match out {
                Ok(st) => {
                    if st.success() {
                        "ok".to_string()
                    } else if let Some(c) = st.code() {
                        format!("exit {}", c)
                    } else {
                        use std::os::unix::process::ExitStatusExt;
                        format!("killed by signal {}", st.signal().unwrap_or(0))
                    }
                }
                Err(e) => format!("spawn failed {}", e),
            };
            (*route, *d, *stack, verdict)
        })
        .collect();
    let mut viol = vec![];
    // smallest failing depth per (route, stack)
    let mut worst: BTreeMap<(String, String), (usize, String)> = BTreeMap::new();
    for (route, d, stack, verdict) in &results {
        if verdict.starts_with("spawn failed") {
            machinery(verdict);
        }
        if verdict != "ok" {
            let e = worst
                .entry((route.to_string(), stack.to_string()))
                .or_insert((*d, verdict.clone()));
            if *d < e.0 {
                *e = (*d, verdict.clone());
            }
        }
    }
    for ((route, stack), (d, verdict)) in worst {
        let (setup, line) = nested_line(&route, d);
        viol.push(Violation {
            signature: format!("deep nesting {} route={} stack={}", target, route, if stack == "main" { "8MiB" } else { "1MiB" }),
            detail: format!(
                "{} nesting depth {} on a {} stack: child process {} (smallest failing depth on the grid)",
                route, d, if stack == "main" { "default 8 MiB main-thread" } else { "1 MiB" }, verdict
            ),
            case: json!({"kind":"nesting","target":target,"route":route,"depth":d,"stack":stack,"setup":setup,"line_prefix":truncate(&line, 60)}),
        });
    }
    (results.len() as u64, viol)
}

pub fn run(thorough: bool) -> Report {
    let mut rep = Report::new("C01", "model_checking");
    let alpha = alphabet();
    let depth = if thorough { 5 } else { 4 };
    let mk = || Sess::new();
    // "still accepts lines": in every distinct idle state a plain statement runs
    let accepts = |hist: &[Ev], snap: &abasic_core::verif::VerifState| -> Vec<Violation> {
        if snap.state != "Idle" {
            return vec![];
        }
        let mk = || Sess::new();
        let mut s = replay(&mk, hist);
        s.recs.clear();
        let r = s.apply(&Ev::Line("PRINT 7".into()));
        if r != CallResult::Ok || s.printed() != "7\n" || s.state() != InterpreterState::Idle {
            let mut h = hist.to_vec();
            h.push(Ev::Line("PRINT 7".into()));
            return vec![Violation {
                signature: format!("idle interpreter does not run PRINT 7: {:?}", r).chars().take(90).collect(),
                detail: format!("after the history the interpreter is idle, but PRINT 7 gave {:?}, printed {:?}, state {:?}", r, s.printed(), s.state()),
                case: case_history(&h, false, false),
            }];
        }
        vec![]
    };
    let (stats, viol) = bfs(&mk, &seeded_roots(), &alpha, depth, &check_transition, Some(&accepts), 30_000_000);
    // Vacuity: every event of the alphabet must have been enabled at least once.
    if viol.is_empty() && stats.events_enabled.len() < alpha.len() {
        machinery(&format!(
            "vacuous: only {} of {} alphabet events were ever enabled",
            stats.events_enabled.len(),
            alpha.len()
        ));
    }
    if viol.is_empty() && stats.outcome_classes.len() < 2 {
        machinery("vacuous: a single outcome class");
    }
    // keep one (shortest, first) violation per signature
    let mut seen = std::collections::HashSet::new();
    for v in viol {
        rep.violating_cases += 1;
        if seen.insert(v.signature.clone()) {
            rep.violations.push(v);
        }
    }

    // (2) line shapes
    let at = atoms();
    let n = if thorough { 5 } else { 4 };
    let base = at.len() as u64;
    let mut shape_total = 0u64;
    let mut shape_viol: Vec<Violation> = vec![];
    for len in 1..=n {
        let count = pow(base, len);
        shape_total += count;
        let v: Vec<(String, String, Vec<Ev>)> = (0..count)
            .into_par_iter()
            .flat_map_iter(|i| {
                let text: String = decode_seq(i, base, len)
                    .iter()
                    .map(|a| at[*a])
                    .collect::<Vec<_>>()
                    .join(" ");
                run_shape(&text)
                    .into_iter()
                    .map(move |(sig, h)| (sig, text.clone(), h))
                    .collect::<Vec<_>>()
                    .into_iter()
            })
            .collect();
        for (sig, text, h) in v {
            rep.violating_cases += 1;
            if seen.insert(sig.clone()) {
                shape_viol.push(Violation {
                    signature: sig.clone(),
                    detail: format!("line shape {:?}: {}", text, sig),
                    case: case_history(&h, false, false),
                });
            }
        }
    }
    rep.violations.extend(shape_viol);

    // (3) recursion probes
    let (children, pv) = recursion_probes("interpreter");
    for v in pv {
        rep.add(v);
    }

    let mut cov = stats_json(&stats);
    if let serde_json::Value::Object(m) = &mut cov {
        m.insert("states".into(), json!(stats.states));
        m.insert("transitions".into(), json!(stats.transitions + shape_total * 2));
        m.insert("traces_validated_against_impl".into(), json!(stats.transitions));
        m.insert("depth_bound".into(), json!(depth));
        m.insert("roots".into(), json!(seeded_roots().len()));
        m.insert("alphabet_size".into(), json!(alpha.len()));
        m.insert("line_shapes".into(), json!(shape_total));
        m.insert("line_shape_max_atoms".into(), json!(n));
        m.insert("line_shape_atoms".into(), json!(at));
        m.insert("recursion_probe_children".into(), json!(children));
        m.insert("recursion_depth_grid".into(), json!(depth_grid()));
        m.insert("exhaustive".into(), json!(true));
        m.insert(
            "samples".into(),
            json!([hist_json(&seeded_roots()[2]), {"line_shape": "IF X THEN 12 ELSE %"}, {"nesting": "X=((((…1…))))"}]),
        );
    }
    rep.coverage = cov;
    rep.assumptions = vec![
        "every transition is an execution of the real interpreter; states are merged only when the complete canonical snapshot is equal".into(),
        "a call that never returns is detected by the wrapper's wall-clock cap, not by this process".into(),
    ];
    rep
}
