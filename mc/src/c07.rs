//! C07 — break and CONT are transparent to the interrupted program.
//! Schedule enumeration on the real code: every set of <= k turn boundaries at which the
//! host breaks in, executes one side-effect-free inspection and issues CONT.

use crate::common::*;
use crate::gen::*;
use abasic_core::InterpreterState;
use rayon::prelude::*;
use serde_json::json;
use std::collections::{BTreeMap, HashSet};

pub struct FixedProg {
    pub name: &'static str,
    pub lines: Vec<&'static str>,
    pub replies: Vec<&'static str>,
}

/// Every program defines FNA (succeeds), FNZ (fails inside its body, parameter named like a
/// variable the program reads later) on its first line and sets Y to 1.
pub fn fixed_programs() -> Vec<FixedProg> {
    let head = "1 DIM H(4): H(2)=46: DEF FNA(Q)=Q+1: DEF FNZ(Y)=Y/0: DEF FNW(X)=FNZ(X)+1: DEF FNU(X)=FNA(X)*2: Y=1: X=2: A$=\"s\": DEF FNV(Y)=";
    vec![
        FixedProg {
            name: "nested FOR",
            lines: vec![head, "30 FOR I=1 TO 2: FOR J=1 TO 2", "40 PRINT I;J;Y;", "50 NEXT J: NEXT I", "60 PRINT X;Y;A$"],
            replies: vec![],
        },
        FixedProg {
            name: "GOSUB inside FOR, two levels",
            lines: vec![head, "20 FOR I=1 TO 2: GOSUB 100: NEXT I", "30 PRINT \"e\";Y: END", "100 PRINT \"s\";I;: GOSUB 200", "110 RETURN", "200 PRINT \"t\";Y;: RETURN"],
            replies: vec![],
        },
        FixedProg {
            name: "half-consumed DATA with RESTORE",
            lines: vec![head, "20 READ A,B$: PRINT A;B$;", "30 RESTORE: READ C: PRINT C;Y", "40 READ D$,E: PRINT D$;E", "90 DATA 11,\"w\",22"],
            replies: vec![],
        },
        FixedProg {
            name: "DEF and calls",
            lines: vec![head, "20 DEF FNB(Y)=FNA(Y)+Y", "30 PRINT FNA(X);FNB(3);Y", "40 X=FNB(Y)+FNA(Y): PRINT X;Y"],
            replies: vec![],
        },
        FixedProg {
            name: "multi-statement lines with IF/THEN/ELSE",
            lines: vec![head, "20 IF X THEN PRINT \"t\";: PRINT Y;", "30 IF X=0 THEN PRINT \"n\" ELSE PRINT \"e\";: PRINT Y;", "40 IF Y THEN GOSUB 100 ELSE PRINT \"no\"", "50 IF 0 THEN 70 ELSE X=X+1: PRINT X;", "60 PRINT \"end\";Y: END", "100 PRINT \"sub\";: RETURN"],
            replies: vec![],
        },
        FixedProg {
            name: "INPUT numeric, string, array target, REENTER",
            lines: vec![head, "20 INPUT N: PRINT N;Y;", "30 INPUT T$: PRINT T$;", "40 FOR I=1 TO 2: INPUT A(I): NEXT I", "50 PRINT A(1);A(2);Y"],
            replies: vec!["abc", "5", "t", "3,4", "6"],
        },
        FixedProg {
            name: "arrays",
            lines: vec![head, "20 DIM M(2,2): M(1,2)=7: B(3)=Y", "30 FOR I=0 TO 2: PRINT M(1,I);B(I+1);: NEXT I", "40 PRINT Y;H(2)"],
            replies: vec![],
        },
        FixedProg {
            name: "RND",
            lines: vec![head, "20 FOR I=1 TO 3: PRINT INT(RND(1)*100);RND(0);: NEXT I", "30 PRINT Y"],
            replies: vec![],
        },
        FixedProg {
            name: "runtime error at the end",
            lines: vec![head, "20 PRINT Y;: GOSUB 100", "30 PRINT 1/0", "100 PRINT \"in\";Y;: RETURN"],
            replies: vec![],
        },
        FixedProg {
            name: "STOP under THEN with ELSE, nested IF with two ELSEs",
            lines: vec![head, "20 IF Y THEN STOP ELSE PRINT \"no\"", "30 PRINT \"a\";Y;: IF X=9 THEN IF 1 THEN PRINT 1 ELSE PRINT 2 ELSE PRINT 3", "40 STOP: PRINT \"b\";X;Y"],
            replies: vec![],
        },
        FixedProg {
            name: "INPUT under THEN with ELSE, in a subroutine",
            lines: vec![head, "20 GOSUB 100: PRINT \"r\";W;Y: END", "100 IF Y THEN INPUT W ELSE PRINT \"no\"", "110 RETURN"],
            replies: vec!["8"],
        },
        FixedProg {
            name: "a never-assigned variable read late, in a loop",
            lines: vec![head, "20 FOR I=1 TO 2: PRINT \"a\";I;", "30 PRINT T9;Y: NEXT I", "40 PRINT T9+1"],
            replies: vec![],
        },
        FixedProg {
            name: "a loop through the start of line 0",
            lines: vec!["0 K=K+1: PRINT K;: IF K<3 THEN 0", head, "20 PRINT \"e\";Y;K"],
            replies: vec![],
        },
        FixedProg {
            name: "DATA used up, then one READ too many",
            lines: vec![head, "20 READ A,B: PRINT A;B;", "30 E=1: PRINT \"x\";Y;", "40 READ C: PRINT C", "90 DATA 5,6"],
            replies: vec![],
        },
        // arrays the program dimensions only later
        FixedProg {
            name: "DIM after the first statements",
            lines: vec![head, "20 PRINT \"a\";X;", "30 DIM D(20): D(15)=1: DIM E$(12)", "40 E$(12)=\"e\": PRINT D(15);E$(12)"],
            replies: vec![],
        },
        // the frame stack is full when the inner statements run: an inspection that calls a
        // function is refused there and must leave nothing behind
        FixedProg {
            name: "32 frames held",
            lines: {
                let mut l: Vec<&'static str> = vec![head, "100 GOSUB 101: PRINT \"e\";X;Y: END"];
                for n in 101..=131u32 {
                    l.push(Box::leak(format!("{} GOSUB {}: RETURN", n, n + 1).into_boxed_str()));
                }
                l.push("132 PRINT X;: PRINT Y;: X=X+1: RETURN");
                l
            },
            replies: vec![],
        },
    ]
}

pub const INSPECTIONS: [&str; 30] = [
    // a NEXT for a loop that is not open is refused and closes nothing; a READ that finds no item
    // left (E is set once the DATA of the program that sets it has been used up) moves nothing
    "NEXT Q9",
    "IF E THEN READ Z9",
    // a FOR that is refused (no limit, an ill-typed limit, a failing start value) opens nothing and
    // closes nothing; a read of a name the program itself reads unassigned later on
    "FOR I=1 TO",
    "FOR I=1 TO \"X\"",
    "FOR J=1/0 TO 2",
    "PRINT T9",
    // END typed at a breakpoint ends nothing (there is no run to end) and forgets nothing
    "END",
    "PRINT I;: END",
    // a DIM that is refused (H exists from the moment Y is 1) leaves the array as it was
    "IF Y THEN DIM H(9)",
    // a call that succeeds two functions deep; refused array stores (nothing may come to exist)
    "PRINT FNU(3)",
    "D(1)=\"X\"",
    "E$(1)=7",
    // the generator is program state too: a refused call and a repeated value leave it alone
    "PRINT RND(-1)",
    "PRINT RND(0);FNA(RND(0-2))",
    "PRINT RND(1",
    "",
    "PRINT X;I;A$",
    "PRINT 1/0",
    "PRINT FNA(1)",
    "PRINT FNZ(5)",
    "PRINT FNW(5)",
    "PRINT FNV(5)",
    "PRINT FNA(\"s\")",
    // rejected in direct mode (ILLEGAL DIRECT): assigns and defines nothing
    "DEF FNA(ZZ)=ZZ*100",
    "DEF FNA(P,Q)=P*Q",
    "IF 1 THEN IF 1 THEN PRINT ((1/0))",
    "PRINT \"x\" + 1",
    "LIST",
    "REM",
    "PRINT \"",
];

#[derive(Clone, Debug, PartialEq)]
pub struct Outcome {
    /// Program-visible records: Print / Reenter / ExtraIgnored / (Request, Reply) pairs.
    pub transcript: Vec<String>,
    pub end: String,
    /// Complete interpreter state when the run is over (the break notices leave no trace in it).
    pub final_state: Option<abasic_core::verif::VerifState>,
}

pub fn program_records(recs: &[Rec]) -> Vec<String> {
    recs.iter()
        .filter(|r| !matches!(r, Rec::Break(_) | Rec::Error(_, _) | Rec::Trace(_) | Rec::Warning(_, _)))
        .map(|r| format!("{:?}", r))
        .collect()
}

/// Runs the program; at each boundary index in `breaks` the host breaks in, runs the
/// inspection line and issues CONT. Returns the outcome, the host-call history and the
/// number of boundaries seen.
pub fn run_with_breaks(p: &FixedProg, breaks: &[usize], inspection: &str) -> (Outcome, Vec<Ev>, usize, u64) {
    let lines: Vec<String> = p.lines.iter().map(|l| l.to_string()).collect();
    let replies: Vec<String> = p.replies.iter().map(|l| l.to_string()).collect();
    run_lines_with_breaks(&lines, &replies, breaks, inspection, 400)
}

/// The same for any program text; `max_boundaries` caps the run (the cap is part of the
/// outcome, so interrupted and uninterrupted runs are cut at the same boundary count).
pub fn run_lines_with_breaks(lines: &[String], replies: &[String], breaks: &[usize], inspection: &str, max_boundaries: usize) -> (Outcome, Vec<Ev>, usize, u64) {
    let mut s = Sess::new();
    // runtime warnings on: what the program is warned about is part of what it shows (the
    // inspections' own warnings are dropped with the rest of their output)
    s.it.enable_warnings = true;
    let mut hist = vec![];
    let mut calls = 0u64;
    for l in lines {
        let e = Ev::Line(l.to_string());
        let _ = s.apply(&e);
        hist.push(e);
    }
    s.recs.clear();
    // the generator as a session finds it: never seeded, nothing drawn yet
    s.it.randomize(0);
    let mut replies = replies.iter();
    let mut transcript: Vec<String> = vec![];
    let e = Ev::Line("RUN".into());
    let mut last = s.apply(&e);
    hist.push(e);
    let mut boundary = 0usize;
    let end;
    loop {
        calls += 1;
        transcript.extend(s.recs.iter().filter(|r| !matches!(r, Rec::Break(_) | Rec::Error(_, _) | Rec::Trace(_))).map(|r| format!("{:?}", r)));
        s.recs.clear();
        match &last {
            CallResult::Panic(pn) => {
                end = format!("panic {}", short_panic(pn));
                break;
            }
            CallResult::Err(k, l) => {
                end = format!("error {} in {:?}", k, l);
                break;
            }
            CallResult::Ok => {}
        }
        let st = s.state();
        if st == InterpreterState::Idle {
            // A STOP in the program: the host types CONT (bounded), anything else is the end.
            if s.it.verif_snapshot().breakpoint.is_some() && boundary < max_boundaries {
                transcript.push("Stopped".into());
                boundary += 1;
                let e = Ev::Line("CONT".into());
                last = s.apply(&e);
                hist.push(e);
                continue;
            }
            end = "ended".to_string();
            break;
        }
        if st == InterpreterState::NewInterpreterRequested || boundary > max_boundaries {
            end = format!("{:?}", st);
            break;
        }
        boundary += 1;
        if breaks.contains(&boundary) {
            // break in, inspect, continue
            let _ = s.apply(&Ev::Break);
            hist.push(Ev::Break);
            let mut insp = inspection;
            if insp.contains("FN") {
                let name = &insp[insp.find("FN").unwrap()..insp.find("FN").unwrap() + 3];
                let insp_is_def = insp.starts_with("DEF");
                let _ = insp_is_def;
                if !s.it.verif_snapshot().functions.iter().any(|f| f.name == name) {
                    insp = ""; // calling an undefined function would dimension an array
                }
            }
            if !insp.is_empty() {
                let e = Ev::LineToIdle(insp.to_string());
                let r = s.apply(&e);
                hist.push(e);
                if let CallResult::Panic(pn) = r {
                    end = format!("inspection panicked {}", short_panic(&pn));
                    break;
                }
            }
            s.recs.clear();
            let e = Ev::Line("CONT".into());
            last = s.apply(&e);
            hist.push(e);
            continue;
        }
        match st {
            InterpreterState::Running => {
                last = s.apply(&Ev::Cont);
                hist.push(Ev::Cont);
            }
            InterpreterState::AwaitingInput => match replies.next() {
                Some(r) => {
                    transcript.push("Request".into());
                    let e = Ev::Input(r.to_string());
                    last = s.apply(&e);
                    hist.push(e);
                }
                None => {
                    end = "no reply left".to_string();
                    break;
                }
            },
            _ => unreachable!(),
        }
    }
    let final_state = guarded(|| s.it.verif_snapshot()).ok();
    (Outcome { transcript, end, final_state }, hist, boundary, calls)
}

fn subsets(t: usize, k: usize) -> Vec<Vec<usize>> {
    // all subsets of {1..t} of size <= k, smallest first
    let mut out = vec![vec![]];
    for a in 1..=t {
        out.push(vec![a]);
    }
    if k >= 2 {
        for a in 1..=t {
            for b in (a + 1)..=t {
                out.push(vec![a, b]);
            }
        }
    }
    if k >= 3 {
        for a in 1..=t {
            for b in (a + 1)..=t {
                for c in (b + 1)..=t {
                    out.push(vec![a, b, c]);
                }
            }
        }
    }
    out
}

/// Second clause: an assignment at a STOP acts like the assignment written in its place.
fn stop_clause(p: &FixedProg) -> (u64, Vec<Violation>) {
    let assignments = ["X=7", "A$=\"Q\"", "I=I+1", "A(1)=9", "Y=4"];
    let mut out = vec![];
    let mut runs = 0u64;
    if p.lines.iter().any(|l| l.contains("STOP")) {
        return (0, out); // the clause is about one STOP; programs with their own STOPs are skipped
    }
    // positions: a new line between every two consecutive lines
    let nums: Vec<u64> = p.lines.iter().map(|l| l.split(' ').next().unwrap().parse().unwrap()).collect();
    for &n in &nums {
        let at = n + 5;
        if nums.contains(&at) {
            continue;
        }
        for a in assignments {
            runs += 1;
            // P with STOP, assignment typed at the breakpoint
            let mut s = Sess::new();
            let mut hist = vec![];
            let mut lines: Vec<String> = p.lines.iter().map(|l| l.to_string()).collect();
            lines.push(format!("{} STOP", at));
            for l in &lines {
                let e = Ev::Line(l.clone());
                let _ = s.apply(&e);
                hist.push(e);
            }
            s.recs.clear();
            s.it.randomize(7);
            let mut replies = p.replies.iter().map(|r| r.to_string());
            let mut end = s.run_line("RUN", &mut replies, 2000);
            hist.push(Ev::LineToIdle("RUN".into()));
            let mut stops = 0;
            while end == RunEnd::Idle && s.it.verif_snapshot().breakpoint.is_some() && stops < 50 {
                stops += 1;
                let e = Ev::LineToIdle(a.to_string());
                let _ = s.apply(&e);
                hist.push(e);
                end = s.run_line("CONT", &mut replies, 2000);
                hist.push(Ev::LineToIdle("CONT".into()));
            }
            let got = (program_records(&s.recs), format!("{:?}", end));
            // P with the assignment in place of the STOP
            let mut s2 = Sess::new();
            let mut lines2: Vec<String> = p.lines.iter().map(|l| l.to_string()).collect();
            lines2.push(format!("{} {}", at, a));
            for l in &lines2 {
                let _ = s2.apply(&Ev::Line(l.clone()));
            }
            s2.recs.clear();
            s2.it.randomize(7);
            let mut replies2 = p.replies.iter().map(|r| r.to_string());
            let end2 = s2.run_line("RUN", &mut replies2, 2000);
            let want = (program_records(&s2.recs), format!("{:?}", end2));
            if got != want {
                out.push(Violation {
                    signature: format!("STOP+assignment differs from assignment in place: {} / {} at line {}", p.name, a, at),
                    detail: format!("with STOP at {} and {} typed at the breakpoint: {:?}; with {} {} in the program: {:?}", at, a, got, at, a, want),
                    case: case_history(&hist, false, false),
                });
            }
        }
    }
    (runs, out)
}

/// Second clause at statement positions other than "own line": `{S}` is replaced by STOP
/// (assignment typed at the breakpoint, then CONT) and by the assignment itself.
fn stop_placements() -> Vec<(&'static str, Vec<&'static str>)> {
    vec![
        ("under THEN with ELSE", vec!["10 Y=1: X=2", "20 IF Y THEN {S} ELSE PRINT \"no\"", "30 PRINT \"a\";X;Y;A$;I;A(1)"]),
        ("under ELSE", vec!["10 Y=1: X=2", "20 IF 0 THEN PRINT 1 ELSE {S}: PRINT \"c\"", "30 PRINT \"a\";X;Y;A$;I;A(1)"]),
        ("under THEN followed by a statement", vec!["10 Y=1: X=2", "20 IF Y THEN {S}: PRINT \"c\"", "30 PRINT \"a\";X;Y;A$;I;A(1)"]),
        ("between statements on a line", vec!["10 Y=1: X=2: PRINT \"p\";: {S}: PRINT \"q\";X", "30 PRINT \"a\";X;Y;A$;I;A(1)"]),
        ("inside FOR on one line", vec!["10 Y=1: FOR I=1 TO 2: {S}: NEXT I", "30 PRINT \"a\";X;Y;A$;I;A(1)"]),
        ("inside a subroutine under THEN with ELSE", vec!["10 Y=1: GOSUB 100: PRINT \"r\";X: GOTO 30", "30 PRINT \"a\";X;Y;A$;I;A(1): END", "100 IF Y THEN {S} ELSE PRINT \"no\"", "110 RETURN"]),
        ("nested IF, inner ELSE", vec!["10 Y=1", "20 IF Y THEN IF Y THEN {S} ELSE PRINT \"no\"", "30 PRINT \"a\";X;Y;A$;I;A(1)"]),
        ("last statement of the last line", vec!["10 Y=1: X=2: PRINT \"a\";X;Y", "20 PRINT \"z\";: {S}"]),
        ("last statement of the last line, under THEN", vec!["10 Y=1: X=2", "20 FOR I=1 TO 3: PRINT I;: NEXT I", "30 IF I=4 THEN {S}"]),
        ("the whole program", vec!["10 {S}"]),
    ]
}

fn stop_placement_clause() -> (u64, Vec<Violation>) {
    let assignments = ["X=7", "A$=\"Q\"", "I=I+1", "A(1)=9", "Y=0"];
    let mut out = vec![];
    let mut runs = 0u64;
    for (name, tmpl) in stop_placements() {
        for a in assignments {
            runs += 1;
            let with_stop: Vec<String> = tmpl.iter().map(|l| l.replace("{S}", "STOP")).collect();
            let in_place: Vec<String> = tmpl.iter().map(|l| l.replace("{S}", a)).collect();
            let mut s = Sess::new();
            let mut hist = vec![];
            for l in &with_stop {
                let e = Ev::Line(l.clone());
                let _ = s.apply(&e);
                hist.push(e);
            }
            s.recs.clear();
            let mut none = std::iter::empty();
            let mut end = s.run_line("RUN", &mut none, 2000);
            hist.push(Ev::LineToIdle("RUN".into()));
            let mut stops = 0;
            while end == RunEnd::Idle && s.it.verif_snapshot().breakpoint.is_some() && stops < 10 {
                stops += 1;
                let e = Ev::LineToIdle(a.to_string());
                let _ = s.apply(&e);
                hist.push(e);
                end = s.run_line("CONT", &mut none, 2000);
                hist.push(Ev::LineToIdle("CONT".into()));
            }
            let got = (program_records(&s.recs), format!("{:?}", end), stops);
            let mut s2 = Sess::new();
            for l in &in_place {
                let _ = s2.apply(&Ev::Line(l.clone()));
            }
            s2.recs.clear();
            let end2 = s2.run_line("RUN", &mut none, 2000);
            let want = (program_records(&s2.recs), format!("{:?}", end2));
            if stops == 0 {
                machinery(&format!("STOP placement '{}' never stopped", name));
            }
            if (got.0.clone(), got.1.clone()) != want {
                out.push(Violation {
                    signature: format!("STOP+assignment differs from assignment in place: STOP {} / {}", name, a),
                    detail: format!("with STOP and {} typed at the breakpoint ({} stops): {:?} {}; with the assignment in the program: {:?} {}", a, got.2, got.0, got.1, want.0, want.1),
                    case: case_history(&hist, false, false),
                });
            }
        }
    }
    (runs, out)
}

/// Grammar pass: every statement sequence over the core and INPUT menus, every single turn
/// boundary (while running or awaiting input), with a bare CONT and with a failing inspection
/// before it; the oracle is the uninterrupted run of the same program (cut at the same cap).
fn grammar_pass(thorough: bool) -> (u64, u64, u64, Vec<Violation>) {
    use crate::progs::*;
    use crate::refmodel::render_program;
    let core = core_menu();
    let inm = input_menu();
    let brm = branch_menu();
    let n = if thorough { 4 } else { 3 };
    let cap = 30usize;
    let mut programs = 0u64;
    let mut schedules = 0u64;
    let mut calls = 0u64;
    let mut viol = vec![];
    for (menu, replies) in [(&core, vec![]), (&inm, crate::c08::script(3, 8)), (&inm, crate::c08::script(1, 8)), (&brm, vec![])] {
        let base = menu.len() as u64;
        for len in 1..=n {
            let joins = join_patterns(len, len <= 2);
            let res: Vec<(u64, u64, u64, Vec<Violation>)> = (0..pow(base, len))
                .into_par_iter()
                .map(|i| {
                    let idxs = decode_seq(i, base, len);
                    let seq: Vec<T> = idxs.iter().map(|k| menu[*k].1.clone()).collect();
                    let (mut p, mut sch, mut c) = (0u64, 0u64, 0u64);
                    let mut out = vec![];
                    for &j in &joins {
                        let prog = layout(&seq, j);
                        let lines = render_program(&prog);
                        let (base_o, _, t, c0) = run_lines_with_breaks(&lines, &replies, &[], "", cap + 12);
                        p += 1;
                        c += c0;
                        if base_o.end.starts_with("panic") {
                            continue; // C01's business
                        }
                        // A run cut by the boundary cap (a loop) has no final outcome: the
                        // interrupted run is then compared on the common prefix only.
                        let cut = |o: &Outcome| o.end == "Running" || o.end == "AwaitingInput";
                        let base_cut = cut(&base_o) || t + 4 > cap + 12;
                        'b: for b in 1..=t.min(cap) {
                            for insp in ["", "PRINT 1/0"] {
                                let (o, hist, _, c1) = run_lines_with_breaks(&lines, &replies, &[b], insp, cap + 12);
                                sch += 1;
                                c += c1;
                                let same = if base_cut || cut(&o) {
                                    let n = o.transcript.len().min(base_o.transcript.len());
                                    o.transcript[..n] == base_o.transcript[..n] && (base_cut || n + 6 >= base_o.transcript.len())
                                } else {
                                    o == base_o
                                };
                                if !same {
                                    let i = o.transcript.iter().zip(&base_o.transcript).position(|(a, b)| a != b);
                                    out.push(Violation {
                                        signature: format!("not transparent: grammar program / inspection {:?} / {}", insp, match i {
                                            Some(i) => format!("record {} vs {}", o.transcript[i], base_o.transcript[i]),
                                            None if o.end != base_o.end || o.transcript.len() != base_o.transcript.len() => format!("end {} vs {}", o.end, base_o.end),
                                            None => "final interpreter state differs".to_string(),
                                        }),
                                        detail: format!("{:?} with replies {:?}, break at boundary {} with inspection {:?}: transcript {:?} end {:?}; uninterrupted: {:?} end {:?}", lines, replies, b, insp, o.transcript, o.end, base_o.transcript, base_o.end),
                                        case: case_history(&hist, true, false),
                                    });
                                    break 'b;
                                }
                            }
                        }
                    }
                    (p, sch, c, out)
                })
                .collect();
            for (p, sch, c, v) in res {
                programs += p;
                schedules += sch;
                calls += c;
                if viol.len() < 500 {
                    viol.extend(v);
                }
            }
        }
    }
    (programs, schedules, calls, viol)
}

pub fn run(thorough: bool) -> Report {
    let mut rep = Report::new("C07", "model_checking");
    let k = if thorough { 3 } else { 2 };
    let progs = fixed_programs();
    let mut states = 0u64;
    let mut schedules_by_size: BTreeMap<usize, u64> = BTreeMap::new();
    let mut jobs: Vec<(usize, Vec<usize>)> = vec![];
    let mut base: Vec<Outcome> = vec![];
    let mut per_prog = vec![];
    for (pi, p) in progs.iter().enumerate() {
        let (o, _, t, _) = run_with_breaks(p, &[], "");
        // determinism self-test
        let (o2, _, _, _) = run_with_breaks(p, &[], "");
        if o != o2 {
            machinery("uninterrupted run is not deterministic");
        }
        if o.end.starts_with("panic") || o.end == "no reply left" {
            machinery(&format!("fixed program {} does not run: {}", p.name, o.end));
        }
        per_prog.push(json!({"program": p.name, "boundaries": t, "uninterrupted_end": o.end, "transcript_records": o.transcript.len()}));
        base.push(o);
        let t = t.min(60);
        states += t as u64;
        for sset in subsets(t, k) {
            *schedules_by_size.entry(sset.len()).or_insert(0) += 1;
            jobs.push((pi, sset));
        }
    }
    let results: Vec<(u64, Vec<Violation>)> = jobs
        .par_iter()
        .map(|(pi, sset)| {
            let p = &progs[*pi];
            let mut calls = 0u64;
            let mut out = vec![];
            for insp in INSPECTIONS {
                if sset.is_empty() && !insp.is_empty() {
                    continue;
                }
                let (mut o, hist, _, c) = run_with_breaks(p, sset, insp);
                calls += c;
                let mut reference = base[*pi].clone();
                if insp.contains("READ") {
                    // where a refused READ leaves the cursor of an exhausted DATA list is not
                    // something a program can see: compared is what the program shows and does
                    for st in [&mut o.final_state, &mut reference.final_state] {
                        if let Some(f) = st.as_mut() {
                            f.data_cursor = None;
                        }
                    }
                }
                let base_here = [reference];
                let base = &base_here;
                let pi = &0usize;
                if o != base[*pi] {
                    let i = o.transcript.iter().zip(&base[*pi].transcript).position(|(a, b)| a != b);
                    out.push(Violation {
                        signature: format!("not transparent: {} / inspection {:?} / {}", p.name, insp, match i {
                            Some(i) => format!("record {} vs {}", o.transcript[i], base[*pi].transcript[i]),
                            None if o.end != base[*pi].end || o.transcript.len() != base[*pi].transcript.len() => format!("end {} vs {}", o.end, base[*pi].end),
                            None => "final interpreter state differs".to_string(),
                        }),
                        detail: format!("breaks at boundaries {:?} with inspection {:?}: transcript {:?} end {:?}; uninterrupted: {:?} end {:?}{}", sset, insp, o.transcript, o.end, base[*pi].transcript, base[*pi].end, if o.transcript == base[*pi].transcript && o.end == base[*pi].end { format!("; final state {:?} vs {:?}", o.final_state, base[*pi].final_state) } else { String::new() }),
                        case: case_history(&hist, true, false),
                    });
                }
            }
            (calls, out)
        })
        .collect();
    let mut calls = 0u64;
    let mut seen = HashSet::new();
    let mut all: Vec<Violation> = vec![];
    for (c, v) in results {
        calls += c;
        all.extend(v);
    }
    // fewest breaks first
    all.sort_by_key(|v| v.case["events"].as_array().map(|a| a.len()).unwrap_or(0));
    for v in all {
        rep.violating_cases += 1;
        let key = v.signature.split(" / ").take(2).collect::<Vec<_>>().join(" / ");
        if seen.insert(key) {
            rep.violations.push(v);
        }
    }
    let (gp_programs, gp_schedules, gp_calls, gp_viol) = grammar_pass(thorough);
    calls += gp_calls;
    {
        let mut v = gp_viol;
        v.sort_by_key(|x| x.case["events"].as_array().map(|a| a.len()).unwrap_or(0));
        for x in v {
            rep.violating_cases += 1;
            let key = format!("grammar / {}", x.signature.split(" / ").last().unwrap_or(""));
            if seen.insert(key) && rep.violations.len() < 40 {
                rep.violations.push(x);
            }
        }
    }
    let mut stop_runs = 0u64;
    {
        let (r, v) = stop_placement_clause();
        stop_runs += r;
        for x in v {
            rep.add(x);
        }
    }
    for p in &progs {
        let (r, v) = stop_clause(p);
        stop_runs += r;
        for x in v {
            rep.add(x);
        }
    }
    rep.coverage = json!({
        "states": states,
        "transitions": calls,
        "traces_validated_against_impl": jobs.len() as u64 * INSPECTIONS.len() as u64,
        "fixed_programs": per_prog,
        "max_breaks_per_schedule": k,
        "grammar_pass_programs": gp_programs,
        "grammar_pass_single_break_schedules": gp_schedules,
        "schedules_by_number_of_breaks": schedules_by_size,
        "inspections": INSPECTIONS,
        "stop_and_assignment_runs": stop_runs,
        "exhaustive": true,
        "samples": [{"program": progs[1].name, "breaks_at_boundaries": [3, 9], "inspection": "PRINT FNZ(5)"}],
    });
    rep.assumptions = vec!["turn boundaries are capped at 60 per program (all fixed programs have fewer)".into()];
    rep
}
