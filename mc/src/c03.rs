//! C03 — programs behave as the reference interpreter says.
//! Shape B: every statement sequence up to a length bound over a template menu, in every
//! explored `:`-join layout, run on the real interpreter and on the reference machine.

use crate::common::*;
use crate::gen::*;
use crate::progs::*;
use crate::refmodel::*;
use rayon::prelude::*;
use serde_json::json;
use std::collections::{BTreeMap, HashSet};
use std::sync::Mutex;

pub const SUBJECT_TURN_CAP: usize = 400;
pub const MODEL_STEP_CAP: u64 = 2000;

#[derive(Clone, Debug, PartialEq)]
pub enum ModelEnd {
    Ended,
    Err(String, Option<u64>),
    Undefined(String),
    Cap,
    NeedInput,
    Stopped,
}

/// Runs the reference machine to completion (no input).
pub fn run_model(prog: &ProgramAst, seed: u64, warnings: bool) -> (Machine, ModelEnd) {
    let mut m = Machine::new(prog.clone(), seed);
    m.warnings = warnings;
    let end = loop {
        if m.steps > MODEL_STEP_CAP {
            break ModelEnd::Cap;
        }
        match m.step(None) {
            Step::Ran => {}
            Step::Ended => break ModelEnd::Ended,
            Step::NeedInput => break ModelEnd::NeedInput,
            Step::Stopped(_) => break ModelEnd::Stopped,
            Step::Err(Fail::Kind(k), l) => break ModelEnd::Err(k.to_string(), l),
            Step::Err(Fail::Undefined(w), _) => break ModelEnd::Undefined(w.to_string()),
        }
    };
    (m, end)
}

pub fn run_subject(lines: &[String], seed: u64) -> Result<(Sess, RunEnd), String> {
    let mut s = Sess::new();
    load_program(&mut s, lines)?;
    s.recs.clear();
    s.it.randomize(seed);
    let mut none = std::iter::empty();
    let end = s.run_line("RUN", &mut none, SUBJECT_TURN_CAP);
    Ok((s, end))
}

/// Program-visible transcript of a subject run: consecutive prints merged, then the
/// request / reply / REENTER / EXTRA IGNORED markers in order.
pub fn subject_transcript(recs: &[Rec]) -> Vec<String> {
    let mut out = vec![];
    let mut buf = String::new();
    let flush = |buf: &mut String, out: &mut Vec<String>| {
        if !buf.is_empty() {
            out.push(format!("print:{}", buf));
            buf.clear();
        }
    };
    for r in recs {
        match r {
            Rec::Print(p) => buf.push_str(p),
            Rec::Request => {
                flush(&mut buf, &mut out);
                out.push("request".into());
            }
            Rec::Reply(x) => {
                flush(&mut buf, &mut out);
                out.push(format!("reply:{}", x));
            }
            Rec::Reenter => {
                flush(&mut buf, &mut out);
                out.push("reenter".into());
            }
            Rec::ExtraIgnored => {
                flush(&mut buf, &mut out);
                out.push("extra".into());
            }
            _ => {}
        }
    }
    flush(&mut buf, &mut out);
    out
}

/// Runs the reference machine with a reply script; returns the machine, how it ended and the
/// transcript in the format of `subject_transcript`. `on_step` sees the machine after every
/// step (used for lockstep observers).
pub fn run_model_script(prog: &ProgramAst, seed: u64, warnings: bool, replies: &[String], mut on_step: impl FnMut(&Machine)) -> (Machine, ModelEnd, Vec<String>) {
    let mut m = Machine::new(prog.clone(), seed);
    m.warnings = warnings;
    let mut out: Vec<String> = vec![];
    let mut buf = String::new();
    let mut seen = 0usize;
    let mut it = replies.iter();
    let mut reply: Option<String> = None;
    let end = loop {
        if m.steps > MODEL_STEP_CAP {
            break ModelEnd::Cap;
        }
        let st = m.step(reply.as_deref());
        reply = None;
        on_step(&m);
        for e in &m.events[seen..] {
            match e {
                MEvent::Print(p) => buf.push_str(p),
                MEvent::Reenter | MEvent::ExtraIgnored => {
                    if !buf.is_empty() {
                        out.push(format!("print:{}", buf));
                        buf.clear();
                    }
                    out.push(if matches!(e, MEvent::Reenter) { "reenter".into() } else { "extra".into() });
                }
                _ => {}
            }
        }
        seen = m.events.len();
        match st {
            Step::Ran => {}
            Step::Ended => break ModelEnd::Ended,
            Step::Stopped(_) => break ModelEnd::Stopped,
            Step::Err(Fail::Kind(k), l) => break ModelEnd::Err(k.to_string(), l),
            Step::Err(Fail::Undefined(w), _) => break ModelEnd::Undefined(w.to_string()),
            Step::NeedInput => {
                if !buf.is_empty() {
                    out.push(format!("print:{}", buf));
                    buf.clear();
                }
                out.push("request".into());
                match it.next() {
                    Some(r) => {
                        out.push(format!("reply:{}", r));
                        reply = Some(r.clone());
                    }
                    None => break ModelEnd::NeedInput,
                }
            }
        }
    };
    if !buf.is_empty() {
        out.push(format!("print:{}", buf));
    }
    (m, end, out)
}

/// Final scalar variables of the reference machine in the snapshot's format.
pub fn model_variables(m: &Machine) -> Vec<(String, abasic_core::verif::VerifValue)> {
    use abasic_core::verif::VerifValue;
    let mut v: Vec<(String, VerifValue)> = m
        .vars
        .iter()
        .map(|(k, v)| (k.clone(), match v { Val::N(n) => VerifValue::Num(n.to_bits()), Val::S(s) => VerifValue::Str(s.clone()) }))
        .collect();
    v.sort();
    v
}

/// Runs one program with a reply script on the real interpreter and on the reference machine
/// and compares the transcripts (prints, requests, REENTER, EXTRA IGNORED in order), the way
/// the run ends and the scalar variables left behind.
pub fn compare_script(prog: &ProgramAst, replies: &[String], acc_cap: &mut bool, acc_undef: &mut bool) -> (Option<(String, String)>, Machine, ModelEnd) {
    let (m, mend, mtr) = run_model_script(prog, 1, false, replies, |_| {});
    if let ModelEnd::Undefined(_) = mend {
        *acc_undef = true;
        return (None, m, mend);
    }
    let lines = render_program(prog);
    let mut s = Sess::new();
    if let Err(e) = load_program(&mut s, &lines) {
        return (Some(("program text rejected".into(), e)), m, mend);
    }
    s.recs.clear();
    s.it.randomize(1);
    let mut it = replies.iter().cloned();
    let send = s.run_line("RUN", &mut it, SUBJECT_TURN_CAP);
    let str_ = subject_transcript(&s.recs);
    let show = |t: &[String]| truncate(&t.join(" / "), 200);
    let problem = match (&send, &mend) {
        (RunEnd::Panic(p), _) => Some((format!("panic {}", short_panic(p)), format!("subject panicked: {}", p))),
        (RunEnd::Cap, _) | (_, ModelEnd::Cap) => {
            *acc_cap = true;
            // compare the common prefix; the last entry of the shorter transcript may be partial
            let n = str_.len().min(mtr.len()).saturating_sub(1);
            if str_[..n] != mtr[..n] {
                Some(("transcript prefix differs on a long-running program".into(), format!("subject {:?}; reference {:?}", show(&str_), show(&mtr))))
            } else {
                None
            }
        }
        (RunEnd::Idle, ModelEnd::Ended) | (RunEnd::NoReply, ModelEnd::NeedInput) => {
            if str_ != mtr {
                Some(("transcript differs".into(), format!("subject {:?}; reference {:?}", show(&str_), show(&mtr))))
            } else {
                None
            }
        }
        (RunEnd::Error(k, l), ModelEnd::Err(mk, ml)) => {
            if str_ != mtr {
                Some(("transcript before the error differs".into(), format!("subject {:?}; reference {:?}", show(&str_), show(&mtr))))
            } else if k != mk {
                Some((format!("error kind {} expected {}", k, mk), format!("subject failed with {} in {:?}, reference with {} in {:?}", k, l, mk, ml)))
            } else if l != ml {
                Some((format!("error {} line {:?} expected {:?}", k, l, ml), format!("subject reports {} in line {:?}, reference in line {:?}", k, l, ml)))
            } else {
                None
            }
        }
        (a, b) => Some((
            format!("outcome {} expected {}", short_end(a), short_mend(b)),
            format!("subject ended {:?} ({:?}); reference ended {:?} ({:?})", a, show(&str_), b, show(&mtr)),
        )),
    };
    let problem = problem.or_else(|| {
        if matches!(send, RunEnd::Cap) || matches!(mend, ModelEnd::Cap) {
            return None;
        }
        let sv = s.it.verif_snapshot().variables;
        let mv = model_variables(&m);
        if sv != mv {
            Some(("variables left behind differ".into(), format!("subject {:?}; reference {:?}", sv, mv)))
        } else {
            None
        }
    });
    (problem, m, mend)
}

#[derive(Default)]
struct Acc {
    programs: u64,
    nontrivial: u64,
    capped: u64,
    undefined: u64,
    outputs: HashSet<u64>,
    ends: BTreeMap<String, u64>,
    templates_run: HashSet<usize>,
    viol: Vec<Violation>,
    violating: u64,
    samples: Vec<serde_json::Value>,
}

fn hash_str(s: &str) -> u64 {
    use std::hash::{Hash, Hasher};
    let mut h = std::collections::hash_map::DefaultHasher::new();
    s.hash(&mut h);
    h.finish()
}

/// Compares one program; returns a problem description if subject and model disagree.
pub fn compare(prog: &ProgramAst, acc_cap: &mut bool, acc_undef: &mut bool) -> Option<(String, String)> {
    let (m, mend) = run_model(prog, 1, false);
    compare_with(prog, &m, &mend, acc_cap, acc_undef)
}

pub fn compare_with(
    prog: &ProgramAst,
    m: &Machine,
    mend: &ModelEnd,
    acc_cap: &mut bool,
    acc_undef: &mut bool,
) -> Option<(String, String)> {
    let lines = render_program(prog);
    let (s, send) = match run_subject(&lines, 1) {
        Ok(x) => x,
        Err(e) => return Some(("program text rejected".into(), e)),
    };
    let sout = s.printed();
    let mout = m.output();
    match (&send, mend) {
        (RunEnd::Panic(p), _) => Some((format!("panic {}", short_panic(p)), format!("subject panicked: {}", p))),
        (_, ModelEnd::Undefined(_)) => {
            *acc_undef = true;
            None
        }
        (RunEnd::Cap, _) | (_, ModelEnd::Cap) => {
            *acc_cap = true;
            // Non-terminating (within the caps): compare on the common prefix.
            let n = sout.len().min(mout.len());
            if sout.as_bytes()[..n] != mout.as_bytes()[..n] {
                Some((
                    "output prefix differs on a long-running program".into(),
                    format!("subject printed {:?}…, reference {:?}…", truncate(&sout, 80), truncate(&mout, 80)),
                ))
            } else if matches!(send, RunEnd::Cap) != matches!(*mend, ModelEnd::Cap)
                && m.steps < MODEL_STEP_CAP / 4
            {
                Some((
                    format!("termination differs: subject {:?}, reference {:?}", send, mend),
                    format!("subject ended {:?} after {} calls; reference ended {:?} after {} steps", send, s.calls, mend, m.steps),
                ))
            } else {
                None
            }
        }
        (RunEnd::Idle, ModelEnd::Ended) => {
            if sout != mout {
                Some(("output differs".into(), format!("subject printed {:?}, reference {:?}", truncate(&sout, 120), truncate(&mout, 120))))
            } else {
                None
            }
        }
        (RunEnd::Error(k, l), ModelEnd::Err(mk, ml)) => {
            if sout != mout {
                Some(("output before the error differs".into(), format!("subject printed {:?}, reference {:?}", truncate(&sout, 120), truncate(&mout, 120))))
            } else if k != mk {
                Some((format!("error kind {} expected {}", k, mk), format!("subject failed with {} in {:?}, reference with {} in {:?}", k, l, mk, ml)))
            } else if l != ml {
                Some((format!("error {} line {:?} expected {:?}", k, l, ml), format!("subject reports {} in line {:?}, reference in line {:?}", k, l, ml)))
            } else {
                None
            }
        }
        (a, b) => Some((
            format!("outcome {} expected {}", short_end(a), short_mend(b)),
            format!("subject ended {:?} (printed {:?}); reference ended {:?} (printed {:?})", a, truncate(&sout, 80), b, truncate(&mout, 80)),
        )),
    }
}

fn short_end(e: &RunEnd) -> String {
    match e {
        RunEnd::Error(k, l) => format!("Error({},{:?})", k, l),
        other => format!("{:?}", other),
    }
}
fn short_mend(e: &ModelEnd) -> String {
    match e {
        ModelEnd::Err(k, l) => format!("Error({},{:?})", k, l),
        other => format!("{:?}", other),
    }
}

fn run_family(menu: &[(&'static str, T)], n: usize, join_mode: u8, total: &Mutex<Acc>) {
    let base = menu.len() as u64;
    let count = pow(base, n);
    let joins = if join_mode == 0 { vec![0u32] } else { join_patterns(n, join_mode == 2) };
    (0..count).into_par_iter().for_each_init(
        Acc::default,
        |_, i| {
            let mut acc = Acc::default();
            let idxs = decode_seq(i, base, n);
            let seq: Vec<T> = idxs.iter().map(|k| menu[*k].1.clone()).collect();
            for &j in &joins {
                if !layout_is_faithful(&seq, j) {
                    continue;
                }
                let prog = layout(&seq, j);
                let (mut cap, mut undef) = (false, false);
                let (m, mend) = run_model(&prog, 1, false);
                let problem = compare_with(&prog, &m, &mend, &mut cap, &mut undef);
                acc.programs += 1;
                if cap {
                    acc.capped += 1;
                }
                if undef {
                    acc.undefined += 1;
                }
                if m.jumps > 0 {
                    acc.nontrivial += 1;
                }
                acc.outputs.insert(hash_str(&m.output()));
                *acc.ends.entry(match &mend {
                    ModelEnd::Err(k, _) => format!("Err({})", k),
                    o => format!("{:?}", o),
                }).or_insert(0) += 1;
                for k in &idxs {
                    acc.templates_run.insert(hash_str(menu[*k].0) as usize);
                }
                if acc.samples.is_empty() && m.jumps > 2 && i % 977 == 0 {
                    acc.samples.push(json!({"program": render_program(&prog), "reference_output": truncate(&m.output(), 60), "reference_end": format!("{:?}", mend)}));
                }
                if let Some((sig, detail)) = problem {
                    acc.violating += 1;
                    let lines = render_program(&prog);
                    acc.viol.push(Violation {
                        signature: format!("{} :: {}", lines.join(" | "), sig),
                        detail,
                        case: case_program(&lines, &[], 1),
                    });
                }
            }
            let mut t = total.lock().unwrap();
            t.programs += acc.programs;
            t.nontrivial += acc.nontrivial;
            t.capped += acc.capped;
            t.undefined += acc.undefined;
            t.outputs.extend(acc.outputs);
            for (k, v) in acc.ends {
                *t.ends.entry(k).or_insert(0) += v;
            }
            t.templates_run.extend(acc.templates_run);
            t.violating += acc.violating;
            if t.viol.len() < 3000 {
                t.viol.extend(acc.viol);
            }
            if t.samples.len() < 4 {
                t.samples.extend(acc.samples);
            }
        },
    );
}

/// Session pass: programs are entered and run one after the other in the *same* interpreter
/// (previous lines deleted, RUN resets the rest), so every program but the first starts from
/// a state left behind by hundreds of earlier runs, many of which failed.
fn session_pass(menu: &[(&'static str, T)], n: usize, total: &Mutex<Acc>) -> u64 {
    let base = menu.len() as u64;
    let count = pow(base, n);
    let idx: Vec<u64> = (0..count).collect();
    idx.par_chunks(400).for_each(|chunk| {
        let mut s = Sess::new();
        let mut prev_lines: Vec<u64> = vec![];
        let mut ran = 0u64;
        for &i in chunk {
            let seq: Vec<T> = decode_seq(i, base, n).iter().map(|k| menu[*k].1.clone()).collect();
            for j in join_patterns(n, true) {
                let prog = layout(&seq, j);
                let (m, mend) = run_model(&prog, 1, false);
                if matches!(mend, ModelEnd::Undefined(_) | ModelEnd::Cap) {
                    continue;
                }
                for l in &prev_lines {
                    let _ = s.apply(&Ev::Line(format!("{}", l)));
                }
                let lines = render_program(&prog);
                for l in &lines {
                    let _ = s.apply(&Ev::Line(l.clone()));
                }
                prev_lines = prog.keys().copied().collect();
                s.recs.clear();
                s.it.randomize(1);
                let mut none = std::iter::empty();
                let send = s.run_line("RUN", &mut none, SUBJECT_TURN_CAP);
                if s.state() != abasic_core::InterpreterState::Idle {
                    let _ = s.apply(&Ev::Break);
                }
                ran += 1;
                let sout = s.printed();
                let ok = match (&send, &mend) {
                    (RunEnd::Idle, ModelEnd::Ended) => sout == m.output(),
                    (RunEnd::Error(k, l), ModelEnd::Err(mk, ml)) => sout == m.output() && k == mk && l == ml,
                    (RunEnd::Cap, _) => true,
                    _ => false,
                };
                if !ok {
                    let mut t = total.lock().unwrap();
                    t.violating += 1;
                    t.viol.push(Violation {
                        signature: format!("{} :: in a long session: subject {:?}, reference {:?}", lines.join(" | "), send, mend),
                        detail: format!("after {} earlier programs entered and run in the same interpreter, this program printed {:?} and ended {:?}; the reference prints {:?} and ends {:?}", ran - 1, truncate(&sout, 80), send, truncate(&m.output(), 80), mend),
                        case: case_program(&lines, &[], 1),
                    });
                    return;
                }
            }
        }
        let mut t = total.lock().unwrap();
        t.programs += ran;
    });
    count
}

/// Array sweep: every array shape of 1-3 dimensions with bounds 0..2 (and implicit arrays),
/// every cell filled with a distinct value, then every subscript tuple over 0..=bound+2 (and
/// 9..=12 for implicit arrays) read and, separately, written, against the reference machine.
fn array_sweep(total: &Mutex<Acc>) -> u64 {
    let mut shapes: Vec<Option<Vec<usize>>> = vec![];
    for rank in 1..=3usize {
        for code in 0..pow(3, rank) {
            shapes.push(Some(decode_seq(code, 3, rank)));
        }
        shapes.push(None); // marker: implicit array of this rank (filled in below)
    }
    let mut jobs: Vec<(usize, Option<Vec<usize>>)> = vec![];
    let mut rank = 0usize;
    let mut per_rank = 0usize;
    for sh in shapes {
        match &sh {
            Some(d) => {
                if d.len() != rank {
                    rank = d.len();
                    per_rank = 0;
                }
                per_rank += 1;
                jobs.push((rank, sh));
            }
            None => {
                let _ = per_rank;
                jobs.push((rank, None));
            }
        }
    }
    let count = std::sync::atomic::AtomicU64::new(0);
    jobs.par_iter().for_each(|(rank, shape)| {
        let rank = *rank;
        // fill statements
        let mut fill: Vec<Stmt> = vec![];
        let bounds: Vec<usize> = match shape {
            Some(d) => d.clone(),
            None => vec![10; rank],
        };
        let fill_vals: Vec<usize> = if shape.is_some() { vec![] } else { vec![0, 1, 10] };
        let cells: Vec<Vec<usize>> = {
            let per: Vec<Vec<usize>> = bounds.iter().map(|b| if shape.is_some() { (0..=*b).collect() } else { fill_vals.clone() }).collect();
            let mut out = vec![vec![]];
            for p in per {
                let mut n = vec![];
                for o in &out {
                    for v in &p {
                        let mut x: Vec<usize> = o.clone();
                        x.push(*v);
                        n.push(x);
                    }
                }
                out = n;
            }
            out
        };
        for (k, c) in cells.iter().enumerate() {
            fill.push(Stmt::Let(false, lvi("A", c.iter().map(|v| num(*v as f64)).collect()), num(100.0 + k as f64)));
        }
        let probe_vals: Vec<usize> = if shape.is_some() { (0..=4).collect() } else { vec![0, 1, 9, 10, 11, 12] };
        let nprobe = pow(probe_vals.len() as u64, rank);
        // also with one subscript too many / too few
        for pi in 0..nprobe {
            let idx: Vec<usize> = decode_seq(pi, probe_vals.len() as u64, rank).iter().map(|k| probe_vals[*k]).collect();
            if shape.is_some() && idx.iter().zip(&bounds).all(|(i, b)| *i > b + 2) {
                continue;
            }
            for write in [false, true] {
                let mut prog = ProgramAst::new();
                if let Some(d) = shape {
                    prog.insert(10, vec![Stmt::Dim("A".into(), d.iter().map(|v| num(*v as f64)).collect())]);
                }
                prog.insert(20, fill.clone());
                let ix: Vec<Expr> = idx.iter().map(|v| num(*v as f64)).collect();
                if write {
                    prog.insert(30, vec![Stmt::Let(false, lvi("A", ix), num(7.0))]);
                } else {
                    prog.insert(30, vec![Stmt::Print(vec![PItem::E(call("A", ix))])]);
                }
                // dump every cell
                let dump: Vec<PItem> = cells.iter().flat_map(|c| vec![PItem::E(call("A", c.iter().map(|v| num(*v as f64)).collect())), PItem::Semi]).collect();
                prog.insert(40, vec![Stmt::Print(dump)]);
                let (mut cap, mut undef) = (false, false);
                count.fetch_add(1, std::sync::atomic::Ordering::Relaxed);
                if let Some((sig, detail)) = compare(&prog, &mut cap, &mut undef) {
                    let lines = render_program(&prog);
                    let mut t = total.lock().unwrap();
                    t.violating += 1;
                    if t.viol.len() < 3000 {
                        t.viol.push(Violation {
                            signature: format!("{} :: array sweep: {}", lines.join(" | "), sig),
                            detail,
                            case: case_program(&lines, &[], 1),
                        });
                    }
                }
            }
        }
    });
    count.into_inner()
}

pub fn run(thorough: bool) -> Report {
    let mut rep = Report::new("C03", "exploration");
    let total = Mutex::new(Acc::default());
    let full = full_menu();
    let core = core_menu();
    let lp = loop_menu();
    let nest = nest_menu();
    let data = data_menu();
    let fnm = fn_menu();
    let arr = array_menu();
    let brm = branch_menu();
    let quiet = quiet_menu();
    let forvar = forvar_menu();
    let fn2 = fn2_menu();
    let values = values_menu();
    let mut fams = vec![];
    // (menu name, menu, statements, join layouts: 2 = all, 1 = none/all/each single, 0 = none only)
    let mut plan: Vec<(&str, &Vec<(&'static str, T)>, usize, u8)> = vec![
        ("full", &full, 1, 2),
        ("full", &full, 2, 2),
        ("full", &full, 3, 1),
        ("core", &core, 4, 1),
        ("loop", &lp, 5, 1),
        ("nest", &nest, 5, 1),
        ("data", &data, 5, 1),
        ("data", &data, 6, 0),
        ("fn", &fnm, 4, 1),
        ("array", &arr, 3, 2),
        ("array", &arr, 4, 0),
        ("branch", &brm, 4, 2),
        ("forvar", &forvar, 5, 1),
        ("fn2", &fn2, 4, 2),
        ("values", &values, 4, 1),
        ("quiet", &quiet, 4, 1),
        ("quiet", &quiet, 5, 0),
    ];
    if thorough {
        plan.push(("full", &full, 3, 2));
        plan.push(("full", &full, 4, 0));
        plan.push(("core", &core, 5, 1));
        plan.push(("loop", &lp, 6, 2));
        plan.push(("nest", &nest, 6, 1));
        plan.push(("nest", &nest, 7, 0));
        plan.push(("data", &data, 6, 1));
        plan.push(("data", &data, 7, 0));
        plan.push(("fn", &fnm, 5, 1));
        plan.push(("fn", &fnm, 6, 0));
        plan.push(("array", &arr, 4, 1));
        plan.push(("branch", &brm, 5, 0));
        plan.push(("array", &arr, 5, 0));
        plan.push(("array", &arr, 5, 1));
        plan.push(("array", &arr, 6, 0));
        plan.push(("branch", &brm, 5, 2));
        plan.push(("branch", &brm, 6, 0));
        plan.push(("values", &values, 5, 1));
    }
    for (name, menu, n, jm) in plan {
        run_family(menu, n, jm, &total);
        fams.push(json!({"menu": name, "menu_size": menu.len(), "statements": n, "join_layouts": match jm { 2 => "all 2^(n-1)", 1 => "none, all, each single join", _ => "none (one statement per line)" }}));
    }
    let session_programs = session_pass(&full, 2, &total) + session_pass(&fnm, 3, &total);
    let array_sweep_programs = array_sweep(&total);
    // programs at the loop cap: 31 / 32 / 33 distinct loops open, then one of them entered again
    // (the loop of that name and everything inside it is forgotten first, so there is room)
    let mut boundary_programs = 0u64;
    for (loops, reenter) in [(32u64, 1u64), (32, 32), (32, 16), (33, 1), (31, 1), (31, 31)] {
        let mut prog = ProgramAst::new();
        for i in 1..=loops {
            prog.insert(10 * i, vec![Stmt::For(format!("V{}", i), num(1.0), num(1.0), None)]);
        }
        let after = 10 * (loops + 1);
        prog.insert(
            after,
            vec![
                Stmt::Let(false, lv("X"), bin(Bin::Add, var("X"), num(1.0))),
                Stmt::If(bin(Bin::Lt, var("X"), num(3.0)), Branch::Line(10 * reenter), None),
            ],
        );
        prog.insert(after + 10, vec![Stmt::Print(vec![PItem::E(st("DONE")), PItem::Semi, PItem::E(var("X"))])]);
        boundary_programs += 1;
        let (mut cap, mut undef) = (false, false);
        if let Some((sig, detail)) = compare(&prog, &mut cap, &mut undef) {
            let lines = render_program(&prog);
            let mut t = total.lock().unwrap();
            t.violating += 1;
            t.viol.push(Violation {
                signature: format!("{} open loops, loop {} entered again :: {}", loops, reenter, sig),
                detail,
                case: case_program(&lines, &[], 1),
            });
        }
    }
    let acc = total.into_inner().unwrap();
    if acc.templates_run.len() < full.len() + 8 {
        machinery("vacuous: not every statement template was executed");
    }
    if acc.ends.len() < 4 {
        machinery("vacuous: too few distinct outcomes");
    }
    // shortest first, one per distinct (sig kind)
    let mut v = acc.viol;
    v.sort_by(|a, b| a.signature.len().cmp(&b.signature.len()).then(a.signature.cmp(&b.signature)));
    let mut seen = HashSet::new();
    for x in v {
        let kind = x.signature.rsplit(" :: ").next().unwrap_or("").to_string();
        if seen.insert(kind) && rep.violations.len() < 40 {
            rep.violations.push(x);
        }
    }
    rep.violating_cases = acc.violating;
    rep.coverage = json!({
        "evaluations": acc.programs,
        "distinct_nontrivial": acc.nontrivial,
        "rule": "every statement sequence over the menu per family, each laid out with the listed ':'-join patterns (distinct program texts by construction); non-trivial = the reference executed at least one control transfer (GOTO/GOSUB/RETURN/loop back-edge/THEN line)",
        "exhaustive": true,
        "families": fams,
        "distinct_reference_outputs": acc.outputs.len(),
        "session_pass_statement_sequences_run_in_long_lived_interpreters": session_programs,
        "array_sweep_programs": array_sweep_programs,
        "loop_cap_boundary_programs": boundary_programs,
        "reference_outcomes": acc.ends,
        "compared_on_prefix_because_of_turn_cap": acc.capped,
        "reference_undefined_not_compared": acc.undefined,
        "templates": full.iter().map(|(n, _)| *n).collect::<Vec<_>>(),
        "samples": acc.samples,
    });
    rep.assumptions = vec![
        "the reference machine (src/refmodel.rs) is the oracle; its stance on IF/ELSE lines and error lines inside function bodies is fixed in DESIGN.md section 4 C03".into(),
        "number formatting shares f64 Display with the subject".into(),
    ];
    rep
}
