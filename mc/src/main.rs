mod bfs;
mod common;
mod gen;
mod progs;
mod refmodel;

mod c01;
mod c02;
mod c03;
mod c04;
mod c05;
mod c06;
mod c07;
mod c08;
mod c09;
mod c10;
mod c11;
mod c12;
mod c13;
mod c14;
mod c15;
mod c16;
mod c17;
mod c18;
mod c19;
mod c20;

use common::*;
use serde_json::{json, Value as J};
use std::path::PathBuf;

pub const VERIF_DIR: &str = "/verif";

struct Known {
    property: String,
    exact: Option<String>,
    prefix: Option<String>,
    what: String,
}

/// known_findings.txt lines:
///   known: property=C03 signature=<exact signature> :: <what fails>
///   known: property=C03 prefix=<signature prefix> :: <what fails>
///   fixed: property=C07 <commit> <what failed>          (suppresses nothing)
fn load_known() -> Vec<Known> {
    let path = format!("{}/known_findings.txt", VERIF_DIR);
    let Ok(text) = std::fs::read_to_string(&path) else {
        return vec![];
    };
    let mut out = vec![];
    for line in text.lines() {
        let Some(rest) = line.strip_prefix("known: property=") else {
            continue;
        };
        let Some((prop, rest)) = rest.split_once(' ') else {
            continue;
        };
        let (sel, what) = rest.split_once(" :: ").unwrap_or((rest, ""));
        let mut k = Known {
            property: prop.to_string(),
            exact: None,
            prefix: None,
            what: what.to_string(),
        };
        if let Some(s) = sel.strip_prefix("signature=") {
            k.exact = Some(s.to_string());
        } else if let Some(s) = sel.strip_prefix("prefix=") {
            k.prefix = Some(s.to_string());
        } else {
            continue;
        }
        out.push(k);
    }
    out
}

fn finalize(mut report: Report, tier: &str) -> ! {
    let known = load_known();
    let dir = PathBuf::from(format!("{}/replays/{}", VERIF_DIR, report.property));
    let _ = std::fs::create_dir_all(&dir);
    if let Ok(rd) = std::fs::read_dir(&dir) {
        for e in rd.flatten() {
            let n = e.file_name().to_string_lossy().to_string();
            if n.starts_with('v') && n.ends_with(".json") {
                let _ = std::fs::remove_file(e.path());
            }
        }
    }
    // Smallest / simplest first: checks emit in enumeration order already; keep stable.
    let mut known_hit: Vec<bool> = vec![false; known.len()];
    let mut unlisted: Vec<&Violation> = vec![];
    let mut seen_sig = std::collections::HashSet::new();
    for v in &report.violations {
        let mut matched = false;
        for (i, k) in known.iter().enumerate() {
            if k.property != report.property {
                continue;
            }
            let m = match (&k.exact, &k.prefix) {
                (Some(e), _) => &v.signature == e,
                (_, Some(p)) => v.signature.starts_with(p.as_str()),
                _ => false,
            };
            if m {
                known_hit[i] = true;
                matched = true;
                break;
            }
        }
        if !matched && seen_sig.insert(v.signature.clone()) {
            unlisted.push(v);
        }
    }
    for (i, k) in known.iter().enumerate() {
        if known_hit[i] {
            println!(
                "KNOWN-FINDING: property={} {} [{}]",
                k.property,
                k.what,
                k.exact.as_ref().or(k.prefix.as_ref()).unwrap()
            );
        }
    }
    let mut n = 0;
    for v in &unlisted {
        if n >= 25 {
            break;
        }
        let path = dir.join(format!("v{:03}.json", n));
        let body = json!({
            "property": report.property,
            "signature": v.signature,
            "detail": v.detail,
            "case": v.case,
        });
        let _ = std::fs::write(&path, serde_json::to_string_pretty(&body).unwrap());
        println!(
            "VIOLATION property={} replay={}",
            report.property,
            path.display()
        );
        println!("  signature: {}", truncate(&v.signature, 300));
        println!("  detail: {}", truncate(&v.detail, 600));
        n += 1;
    }
    if unlisted.len() > n {
        println!(
            "({} further distinct violation signatures not printed)",
            unlisted.len() - n
        );
    }
    let seed: i64 = std::env::var("VERIF_SEED")
        .ok()
        .and_then(|s| s.parse().ok())
        .unwrap_or(0);
    let wall = report.started.elapsed().as_secs_f64();
    if let J::Object(m) = &mut report.coverage {
        m.insert(
            "known_findings_matched".into(),
            json!(known_hit.iter().filter(|b| **b).count()),
        );
        m.insert("violating_cases_total".into(), json!(report.violating_cases));
        m.insert(
            "distinct_unlisted_violation_signatures".into(),
            json!(unlisted.len()),
        );
    }
    let ev = json!({
        "property_id": report.property,
        "tier": if tier == "thorough" { "thorough" } else { "quick" },
        "seed": seed,
        "level": report.level,
        "coverage": report.coverage,
        "assumptions": report.assumptions,
        "wall_s": wall,
        "violations": unlisted.len(),
    });
    let _ = std::fs::create_dir_all(format!("{}/evidence", VERIF_DIR));
    let epath = format!("{}/evidence/{}.json", VERIF_DIR, report.property);
    if std::fs::write(&epath, serde_json::to_string_pretty(&ev).unwrap()).is_err() {
        machinery("cannot write evidence file");
    }
    println!(
        "{} tier={} wall={:.1}s unlisted_violations={} evidence={}",
        report.property,
        tier,
        wall,
        unlisted.len(),
        epath
    );
    std::process::exit(if unlisted.is_empty() { 0 } else { 1 });
}

fn main() {
    let args: Vec<String> = std::env::args().collect();
    if args.len() < 2 {
        eprintln!("usage: mc <ID> --tier quick|thorough | mc <ID> --replay <file> | mc --child ...");
        std::process::exit(2);
    }
    if std::env::var("RUST_BACKTRACE").map(|v| v != "0").unwrap_or(false) {
        // Error values capture a backtrace (and render it) when this is set.
        machinery("RUST_BACKTRACE must be 0 for the subject (the ./check wrapper sets it)");
    }
    install_quiet_panic_hook();
    if args[1] == "--child" {
        std::process::exit(c01::child_main(&args[2..]));
    }
    let id = args[1].clone();
    let mut tier = std::env::var("VERIF_TIER").unwrap_or_else(|_| "quick".into());
    let mut replay: Option<String> = None;
    let mut i = 2;
    while i < args.len() {
        match args[i].as_str() {
            "--tier" => {
                tier = args.get(i + 1).cloned().unwrap_or_default();
                i += 2;
            }
            "--replay" => {
                replay = args.get(i + 1).cloned();
                i += 2;
            }
            _ => i += 1,
        }
    }
    if let Some(path) = replay {
        std::process::exit(replay_file(&id, &path));
    }
    let thorough = tier_is_thorough(&tier);
    let level = match id.as_str() {
        "C01" | "C04" | "C07" | "C09" | "C10" | "C11" | "C16" | "C18" | "C19" => "model_checking",
        _ => "exploration",
    };
    start_watchdog(id.clone(), tier.clone(), level.to_string(), 20);
    let report = match id.as_str() {
        "C01" => c01::run(thorough),
        "C02" => c02::run(thorough),
        "C03" => c03::run(thorough),
        "C04" => c04::run(thorough),
        "C05" => c05::run(thorough),
        "C06" => c06::run(thorough),
        "C07" => c07::run(thorough),
        "C08" => c08::run(thorough),
        "C09" => c09::run(thorough),
        "C10" => c10::run(thorough),
        "C11" => c11::run(thorough),
        "C15" => c15::run(thorough),
        "C16" => c16::run(thorough),
        "C17" => c17::run(thorough),
        "C12" => c12::run(thorough),
        "C13" => c13::run(thorough),
        "C14" => c14::run(thorough),
        "C18" => c18::run(thorough),
        "C19" => c19::run(thorough),
        "C20" => c20::run(thorough),
        _ => {
            eprintln!("unknown property id {}", id);
            std::process::exit(2);
        }
    };
    finalize(report, &tier);
}

/// Re-executes one counterexample file without the explorer and prints what happens.
fn replay_file(id: &str, path: &str) -> i32 {
    let Ok(text) = std::fs::read_to_string(path) else {
        eprintln!("cannot read {}", path);
        return 2;
    };
    let Ok(j) = serde_json::from_str::<J>(&text) else {
        eprintln!("not JSON: {}", path);
        return 2;
    };
    println!("property: {}", id);
    println!("signature: {}", j["signature"].as_str().unwrap_or(""));
    println!("recorded detail: {}", j["detail"].as_str().unwrap_or(""));
    let case = &j["case"];
    gen::replay_case(case)
}
