//! C09 — one host call executes at most one statement and always hands control back.
//! Every turn of every run of the enumerated programs is instrumented (hook counters,
//! trace records) and kept in lockstep with the one-statement-per-step reference machine.

use crate::c07::fixed_programs;
use crate::common::*;
use crate::gen::*;
use crate::progs::*;
use crate::refmodel::*;
use abasic_core::verif::{take_counters, VerifValue};
use abasic_core::InterpreterState;
use rayon::prelude::*;
use serde_json::json;
use std::collections::{BTreeMap, HashSet};
use std::sync::Mutex;

/// Token-cursor reads per call are bounded by WORK_K * (tokens on the executing line + 1).
/// Fixed at twice the maximum ratio observed on the repaired tree over the thorough
/// enumeration (5.86, evidence key `max_work_ratio`); not re-calibrated at run time.
pub const WORK_K: f64 = 12.0;

#[derive(Default)]
struct Acc {
    programs: u64,
    turns: u64,
    lockstep_programs: u64,
    max_ratio: f64,
    max_entries: u64,
    viol: Vec<Violation>,
    violating: u64,
}

type Obs = (String, Vec<(String, VerifValue)>, Option<u64>);

/// Observable used for lockstep: printed output so far + scalar variables + current line.
fn model_obs(m: &Machine) -> Obs {
    // the line execution stands on (end-of-line positions are normalised like the subject does)
    let mut probe = m.clone();
    let line = match probe.peek_line() {
        Some(l) => Some(l),
        None => None,
    };
    let (o, v) = model_obs_inner(m);
    (o, v, line)
}

fn model_obs_inner(m: &Machine) -> (String, Vec<(String, VerifValue)>) {
    let mut v: Vec<(String, VerifValue)> = m
        .vars
        .iter()
        .map(|(k, v)| {
            (
                k.clone(),
                match v {
                    Val::N(n) => VerifValue::Num(n.to_bits()),
                    Val::S(s) => VerifValue::Str(s.clone()),
                },
            )
        })
        .collect();
    v.sort();
    (m.output(), v)
}

fn tokens_on_line(s: &Sess, line: Option<u64>) -> usize {
    let snap = s.it.verif_snapshot();
    match line {
        Some(l) => snap.lines.iter().find(|(n, _)| *n == l).map(|(_, t)| t.len()).unwrap_or(0),
        None => snap.immediate_line.len(),
    }
}

/// Runs a program turn by turn under instrumentation. `model`: lockstep reference.
fn instrumented(lines: &[String], replies: &[String], model: Option<&ProgramAst>, has_fn: bool, acc: &mut Acc, name: &str) {
    let mut s = Sess::new();
    s.it.enable_tracing = true;
    for l in lines {
        let _ = s.apply(&Ev::Line(l.clone()));
    }
    s.recs.clear();
    s.it.randomize(1);
    acc.programs += 1;
    let mut hist: Vec<Ev> = lines.iter().map(|l| Ev::Line(l.clone())).collect();
    // model states: obs after j steps
    let mut mobs: Vec<Obs> = vec![];
    if let Some(p) = model {
        mobs.push(model_obs(&Machine::new(p.clone(), 1)));
        let _ = crate::c03::run_model_script(p, 1, false, replies, |m| mobs.push(model_obs(m)));
        acc.lockstep_programs += 1;
    }
    let mut possible: HashSet<usize> = [0usize].into_iter().collect();
    let mut out_so_far = String::new();
    let mut replies = replies.iter();
    let mut ev = Ev::Line("RUN".into());
    let mut first_line = s.it.verif_snapshot().sorted_index_keys.first().copied();
    for turn in 0..400 {
        let before_line = if turn == 0 { first_line.take() } else { s.it.verif_snapshot().location_line };
        let ntok = tokens_on_line(&s, before_line);
        let _ = take_counters();
        s.recs.clear();
        let r = s.apply(&ev);
        hist.push(ev.clone());
        let c = take_counters();
        acc.turns += 1;
        let is_eval = matches!(ev, Ev::Line(_) | Ev::Cont);
        let prints = s.recs.iter().filter(|r| matches!(r, Rec::Print(_))).count() as u64;
        let traces = s.recs.iter().filter(|r| matches!(r, Rec::Trace(_))).count() as u64;
        let mut problem: Option<(String, String)> = None;
        if let CallResult::Panic(p) = &r {
            problem = Some((format!("panic {}", short_panic(p)), p.clone()));
        } else if is_eval {
            acc.max_entries = acc.max_entries.max(c.statements);
            if c.statements > 1 + c.ifs {
                problem = Some(("more than one statement executed in one call".into(), format!("call {:?}: {} statement entries with {} IF dispatches", ev, c.statements, c.ifs)));
            } else if prints > 1 {
                problem = Some(("more than one PRINT in one call".into(), format!("call {:?}: {} print records", ev, prints)));
            } else if traces != c.statements {
                problem = Some(("trace records do not match statement entries".into(), format!("call {:?}: {} trace records, {} statement entries", ev, traces, c.statements)));
            } else if !has_fn {
                let ratio = c.token_reads as f64 / (ntok as f64 + 1.0);
                if ratio > acc.max_ratio {
                    acc.max_ratio = ratio;
                }
                if ratio > WORK_K {
                    problem = Some(("work in one call exceeds the line-length bound".into(), format!("call {:?} on a line of {} tokens made {} token reads (bound {} x (tokens+1))", ev, ntok, c.token_reads, WORK_K)));
                }
            }
        }
        for rec in &s.recs {
            if let Rec::Print(p) = rec {
                out_so_far.push_str(p);
            }
        }
        if problem.is_none() && model.is_some() && is_eval && matches!(r, CallResult::Ok) {
            let snap = s.it.verif_snapshot();
            let obs: Obs = (out_so_far.clone(), snap.variables.clone(), if snap.state == "Idle" { None } else { snap.location_line });
            let mut next = HashSet::new();
            for &j in &possible {
                for cand in [j, j + 1] {
                    if let Some(o) = mobs.get(cand) {
                        if *o == obs {
                            next.insert(cand);
                        }
                    }
                }
            }
            if next.is_empty() {
                let j = possible.iter().max().copied().unwrap_or(0);
                problem = Some((
                    "call is not a stutter or a single reference step".into(),
                    format!("after call {} ({:?}) the subject shows output {:?} vars {:?} line {:?}; the reference after {} steps shows {:?}, after {} steps {:?}", turn, ev, obs.0, obs.1, obs.2, j, mobs.get(j), j + 1, mobs.get(j + 1)),
                ));
            } else {
                possible = next;
            }
        }
        if let Some((sig, detail)) = problem {
            acc.violating += 1;
            if acc.viol.len() < 20 {
                acc.viol.push(Violation { signature: format!("{} [{}]", sig, name), detail, case: case_history(&hist, false, true) });
            }
            return;
        }
        match (&r, s.state()) {
            (CallResult::Err(_, _), _) => return,
            (_, InterpreterState::Idle) => return,
            (_, InterpreterState::Running) => ev = Ev::Cont,
            (_, InterpreterState::AwaitingInput) => match replies.next() {
                Some(x) => ev = Ev::Input(x.clone()),
                None => return,
            },
            _ => return,
        }
    }
}

fn nonterminating() -> Vec<(&'static str, Vec<String>)> {
    let mut v: Vec<(&'static str, Vec<String>)> = vec![
        ("GOTO self", vec!["10 GOTO 10".into()]),
        ("GOTO self on line 0", vec!["0 GOTO 0".into()]),
        ("counter loop through line 0", vec!["0 X=X+1".into(), "1 GOTO 0".into()]),
        ("counter loop", vec!["10 X=X+1: GOTO 10".into()]),
        ("FOR STEP 0", vec!["10 FOR I=1 TO 2 STEP 0".into(), "20 NEXT I".into()]),
        ("IF THEN self", vec!["10 IF 1 THEN 10".into()]),
        ("FOR re-entered by GOTO", vec!["10 FOR I=1 TO 9".into(), "20 GOTO 10".into()]),
        ("GOSUB ping-pong", vec!["10 GOSUB 100: GOTO 10".into(), "100 RETURN".into()]),
        ("two lines jumping to each other", vec!["10 GOTO 20".into(), "20 GOTO 10".into()]),
        ("huge exponents and operands in a loop", vec!["10 X = 1 ^ 10000000000000000 + 0 ^ 9007199254740993 + (0-1) ^ 9007199254740992".into(), "20 Y = 2 ^ 0.5 * 10000000000000000 / 3: Z = INT(10000000000000000000000 / 7) + ABS(0 - 10000000000000000000000)".into(), "30 GOTO 10".into()]),
        ("three-line jump cycle entered from outside", vec!["10 GOTO 30".into(), "20 GOTO 40".into(), "30 GOTO 20".into(), "40 GOTO 30".into()]),
    ];
    let long_line = format!("10 {}: GOTO 10", vec!["X=X+1"; 200].join(": "));
    v.push(("200-statement line", vec![long_line]));
    let mut many: Vec<String> = (1..=300).map(|i| format!("{} X=X+1", i * 10)).collect();
    many.push("3010 GOTO 10".into());
    v.push(("300-line program", many));
    v
}

pub fn run(thorough: bool) -> Report {
    let mut rep = Report::new("C09", "model_checking");
    let total = Mutex::new(Acc::default());

    // (1) fixed programs (no reference lockstep: they use INPUT and functions)
    for p in fixed_programs() {
        let lines: Vec<String> = p.lines.iter().map(|l| l.to_string()).collect();
        let replies: Vec<String> = p.replies.iter().map(|l| l.to_string()).collect();
        let mut acc = Acc::default();
        instrumented(&lines, &replies, None, true, &mut acc, p.name);
        merge(&total, acc);
    }

    // (2) grammar programs in lockstep with the reference machine
    let menu = if thorough { full_menu() } else { core_menu() };
    let n = if thorough { 3 } else { 3 };
    let core = core_menu();
    let mut fams: Vec<(&Vec<(&'static str, T)>, usize, bool)> = vec![(&menu, n, thorough)];
    if thorough {
        fams.push((&core, 4, false));
    }
    for (menu, n, all) in fams {
        let base = menu.len() as u64;
        for len in 1..=n {
            let joins = join_patterns(len, all);
            (0..pow(base, len)).into_par_iter().for_each(|i| {
                let idxs = decode_seq(i, base, len);
                let seq: Vec<T> = idxs.iter().map(|k| menu[*k].1.clone()).collect();
                let has_fn = idxs.iter().any(|k| menu[*k].0.contains("FN"));
                let mut acc = Acc::default();
                for &j in &joins {
                    let prog = layout(&seq, j);
                    let lines = render_program(&prog);
                    instrumented(&lines, &[], Some(&prog), has_fn, &mut acc, "grammar program");
                }
                merge(&total, acc);
            });
        }
    }

    // (2q) statements that execute nothing: falling onto a REM or DATA line is a call of its own
    {
        let menu = quiet_menu();
        let base = menu.len() as u64;
        let n = if thorough { 5 } else { 4 };
        for len in 1..=n {
            let joins = join_patterns(len, len <= 3);
            (0..pow(base, len)).into_par_iter().for_each(|i| {
                let idxs = decode_seq(i, base, len);
                let seq: Vec<T> = idxs.iter().map(|k| menu[*k].1.clone()).collect();
                let mut acc = Acc::default();
                for &j in &joins {
                    if !layout_is_faithful(&seq, j) {
                        continue;
                    }
                    let prog = layout(&seq, j);
                    let lines = render_program(&prog);
                    instrumented(&lines, &[], Some(&prog), false, &mut acc, "grammar program with REM / DATA lines");
                }
                merge(&total, acc);
            });
        }
    }

    // (2a) the INPUT family with reply scripts: the call that meets INPUT and the call that
    // consumes the reply are one reference step each
    {
        let menu = input_menu();
        let base = menu.len() as u64;
        let n = if thorough { 4 } else { 3 };
        for len in 1..=n {
            let joins = join_patterns(len, len <= 3);
            (0..pow(base, len)).into_par_iter().for_each(|i| {
                let idxs = decode_seq(i, base, len);
                let seq: Vec<T> = idxs.iter().map(|k| menu[*k].1.clone()).collect();
                let mut acc = Acc::default();
                for &j in &joins {
                    let prog = layout(&seq, j);
                    let lines = render_program(&prog);
                    for si in if thorough { vec![1usize, 3] } else { vec![3usize] } {
                        instrumented(&lines, &crate::c08::script(si, 8), Some(&prog), false, &mut acc, "grammar program with an input script");
                    }
                }
                merge(&total, acc);
            });
        }
    }

    // (2b) CONT after a host break is one call like any other: at most one statement
    let mut cont_calls = 0u64;
    {
        let mut progs: Vec<(String, Vec<String>, Vec<String>)> = fixed_programs().into_iter().map(|p| (p.name.to_string(), p.lines.iter().map(|l| l.to_string()).collect(), p.replies.iter().map(|l| l.to_string()).collect())).collect();
        for (n, l) in nonterminating() {
            progs.push((n.to_string(), l, vec![]));
        }
        for (name, lines, replies) in progs {
            let bad: Vec<Violation> = (1..=40usize)
                .into_par_iter()
                .filter_map(|k| {
                    let mut s = Sess::new();
                    s.it.enable_tracing = true;
                    let mut hist = vec![];
                    for l in &lines {
                        let e = Ev::Line(l.clone());
                        let _ = s.apply(&e);
                        hist.push(e);
                    }
                    let mut rp = replies.iter();
                    let mut ev = Ev::Line("RUN".into());
                    for _ in 0..k {
                        let r = s.apply(&ev);
                        hist.push(ev.clone());
                        if r != CallResult::Ok {
                            return None;
                        }
                        ev = match s.state() {
                            InterpreterState::Running => Ev::Cont,
                            InterpreterState::AwaitingInput => Ev::Input(rp.next()?.clone()),
                            _ => return None,
                        };
                    }
                    let _ = s.apply(&Ev::Break);
                    hist.push(Ev::Break);
                    let _ = take_counters();
                    s.recs.clear();
                    let r = s.apply(&Ev::Line("CONT".into()));
                    hist.push(Ev::Line("CONT".into()));
                    let c = take_counters();
                    let prints = s.recs.iter().filter(|r| matches!(r, Rec::Print(_))).count() as u64;
                    if matches!(r, CallResult::Panic(_)) || c.statements > 1 + c.ifs || prints > 1 {
                        return Some(Violation {
                            signature: format!("CONT after a break executed more than one statement [{}]", name),
                            detail: format!("CONT after a break at boundary {}: {:?}, {} statement entries, {} IF dispatches, {} print records", k, r, c.statements, c.ifs, prints),
                            case: case_history(&hist, false, true),
                        });
                    }
                    None
                })
                .collect();
            cont_calls += 40;
            for v in bad.into_iter().take(1) {
                rep.add(v);
            }
        }
    }

    // (2c) immediate lines of several statements, typed in every kind of idle state (fresh,
    // after an error, at a STOP, after a host break while running and while awaiting input):
    // each call still executes one statement
    let mut immediate_calls = 0u64;
    {
        let l = |s: &str| Ev::Line(s.to_string());
        let contexts: Vec<(&str, Vec<Ev>)> = vec![
            ("fresh", vec![]),
            ("after an error", vec![l("PRINT 1/0")]),
            ("at a STOP", vec![l("10 X=1: STOP: PRINT X"), Ev::LineToIdle("RUN".into())]),
            ("after a host break", vec![l("10 FOR I=1 TO 3: PRINT I: NEXT I"), l("RUN"), Ev::Cont, Ev::Break]),
            ("after a break at an input request", vec![l("10 INPUT Q: PRINT Q"), l("RUN"), Ev::Break]),
            ("after a run that failed", vec![l("10 PRINT 1/0"), Ev::LineToIdle("RUN".into())]),
        ];
        let lines = [
            "PRINT \"a\": PRINT \"b\": PRINT \"c\"",
            "FOR K=1 TO 3: NEXT K",
            "Y=1: IF Y THEN PRINT 1: PRINT 2",
            "X=1: X=2: X=3: X=4: X=5",
            "FOR K=1 TO 2: PRINT K: NEXT K: PRINT \"e\"",
            "REM a: PRINT 1",
            "DATA 1: READ Z: PRINT Z",
            "CONT",
            // text with line breaks in it is still one submission
            "PRINT 1\nPRINT 2",
            "X=1\nX=2\r\nX=3",
            "X=1\nRUN",
            // references to arrays that were never dimensioned, with more subscripts than fit
            "PRINT Z1(0,0,0,0)",
            "Z2(1,1,1,1,1)=1",
            "READ Z3(0,0,0,0,0,0)",
        ];
        for (cname, setup) in &contexts {
            for line in lines {
                let mut s = Sess::new();
                s.it.enable_tracing = true;
                let mut hist = vec![];
                for e in setup {
                    let _ = s.apply(e);
                    hist.push(e.clone());
                }
                let mut ev = Ev::Line(line.to_string());
                for _ in 0..60 {
                    let _ = take_counters();
                    s.recs.clear();
                    let r = s.apply(&ev);
                    hist.push(ev.clone());
                    let c = take_counters();
                    immediate_calls += 1;
                    let prints = s.recs.iter().filter(|r| matches!(r, Rec::Print(_))).count() as u64;
                    // what one call builds is bounded too: no statement of a few tokens may leave
                    // more array cells behind than the language's largest array holds
                    let cells: usize = s.it.verif_snapshot().arrays.iter().map(|a| a.cell_count).max().unwrap_or(0);
                    if cells > 10000 {
                        rep.add(Violation {
                            signature: format!("immediate line {}: one call built an array of more than 10000 cells", cname),
                            detail: format!("{:?} typed {}: call {:?} left an array of {} cells behind", line, cname, ev, cells),
                            case: case_history(&hist, false, true),
                        });
                        break;
                    }
                    if matches!(r, CallResult::Panic(_)) || c.statements > 1 + c.ifs || prints > 1 {
                        rep.add(Violation {
                            signature: format!("immediate line {}: more than one statement in one call", cname),
                            detail: format!("{:?} typed {}: call {:?} gave {:?} with {} statement entries, {} IF dispatches, {} print records", line, cname, ev, r, c.statements, c.ifs, prints),
                            case: case_history(&hist, false, true),
                        });
                        break;
                    }
                    if r != CallResult::Ok || s.state() != InterpreterState::Running {
                        break;
                    }
                    ev = Ev::Cont;
                }
            }
        }
    }

    // (3) hand-back on non-terminating programs
    let mut handback = 0u64;
    for (name, lines) in nonterminating() {
        let mut acc = Acc::default();
        instrumented(&lines, &[], None, false, &mut acc, name);
        merge(&total, acc);
        // at each of the first 200 boundaries: Running, and break yields Idle + one Break record
        let bad: Vec<Violation> = (1..=200usize)
            .into_par_iter()
            .filter_map(|k| {
                let mut s = Sess::new();
                let mut hist = vec![];
                for l in &lines {
                    let e = Ev::Line(l.clone());
                    let _ = s.apply(&e);
                    hist.push(e);
                }
                let _ = s.apply(&Ev::Line("RUN".into()));
                hist.push(Ev::Line("RUN".into()));
                for _ in 1..k {
                    let _ = s.apply(&Ev::Cont);
                    hist.push(Ev::Cont);
                }
                let mk = |sig: &str, detail: String, hist: &Vec<Ev>| Violation { signature: format!("{} [{}]", sig, name), detail, case: case_history(hist, false, false) };
                if s.state() != InterpreterState::Running {
                    return Some(mk("non-terminating program is not running at a turn boundary", format!("boundary {}: state {:?}", k, s.state()), &hist));
                }
                let line = s.it.verif_snapshot().location_line;
                s.recs.clear();
                let r = s.apply(&Ev::Break);
                hist.push(Ev::Break);
                let breaks: Vec<&Rec> = s.recs.iter().filter(|r| matches!(r, Rec::Break(_))).collect();
                if r != CallResult::Ok || s.state() != InterpreterState::Idle || breaks.len() != 1 || *breaks[0] != Rec::Break(line) {
                    return Some(mk("break did not hand control back", format!("boundary {}: break gave {:?}, state {:?}, records {:?}, current line {:?}", k, r, s.state(), s.recs, line), &hist));
                }
                None
            })
            .collect();
        handback += 200;
        for v in bad.into_iter().take(1) {
            rep.add(v);
        }
    }

    // (3b) a program that never ends is also stopped at its INPUT prompt: a break requested while it
    // awaits a reply hands control back like one between two statements; and a chain of subroutines
    // whose callers continue with `: RETURN` unwinds one RETURN per call (lockstep with the reference)
    {
        for (name, lines) in [
            ("INPUT loop", vec!["10 INPUT A$", "20 GOTO 10"]),
            ("INPUT under THEN in a loop", vec!["10 FOR I = 1 TO 9: IF I THEN INPUT A(I) ELSE PRINT 0", "20 NEXT I: GOTO 10"]),
        ] {
            for k in 1..=8usize {
                let mut s = Sess::new();
                let mut hist = vec![];
                for l in &lines {
                    let e = Ev::Line(l.to_string());
                    let _ = s.apply(&e);
                    hist.push(e);
                }
                let mut ev = Ev::Line("RUN".into());
                let mut prompts = 0usize;
                let mut problem: Option<String> = None;
                for _ in 0..200 {
                    let r = s.apply(&ev);
                    hist.push(ev.clone());
                    if r != CallResult::Ok {
                        problem = Some(format!("{:?} gave {:?}", ev, r));
                        break;
                    }
                    match s.state() {
                        InterpreterState::Running => ev = Ev::Cont,
                        InterpreterState::AwaitingInput => {
                            prompts += 1;
                            if prompts == k {
                                let line = s.it.verif_snapshot().location_line;
                                s.recs.clear();
                                let r = s.apply(&Ev::Break);
                                hist.push(Ev::Break);
                                let breaks: Vec<&Rec> = s.recs.iter().filter(|r| matches!(r, Rec::Break(_))).collect();
                                if r != CallResult::Ok || s.state() != InterpreterState::Idle || breaks.len() != 1 || *breaks[0] != Rec::Break(line) {
                                    problem = Some(format!("break at prompt {} gave {:?}, state {:?}, records {:?}, current line {:?}", k, r, s.state(), s.recs, line));
                                }
                                break;
                            }
                            ev = Ev::Input("5".into());
                        }
                        st => {
                            problem = Some(format!("state {:?} in a program that never ends", st));
                            break;
                        }
                    }
                }
                handback += 1;
                if let Some(p) = problem {
                    rep.add(Violation { signature: format!("break at an INPUT prompt did not hand control back [{}]", name), detail: p, case: case_history(&hist, false, false) });
                    break;
                }
            }
        }
        // tail-position calls, three deep and thirty deep
        for depth in [3u64, 30] {
            let mut prog = ProgramAst::new();
            prog.insert(10, vec![Stmt::Gosub(100), Stmt::Print(vec![PItem::E(st("b"))])]);
            prog.insert(20, vec![Stmt::End]);
            for d in 0..depth {
                let n = 100 + d * 10;
                let mut body = vec![Stmt::Print(vec![PItem::E(num(d as f64)), PItem::Semi])];
                if d + 1 < depth {
                    body.push(Stmt::Gosub(n + 10));
                }
                body.push(Stmt::Return);
                prog.insert(n, body);
            }
            let lines = render_program(&prog);
            let mut acc = Acc::default();
            instrumented(&lines, &[], Some(&prog), false, &mut acc, "chain of tail-position subroutine calls");
            merge(&total, acc);
        }
    }

    // (4) a call always hands control back, however long the line: statements chained through
    // THEN and ELSE clauses, at every depth of the grid, each in a child process of its own (a call
    // that exhausts the native stack never returns)
    let (ladder_children, pv) = crate::c01::recursion_probes_for("interpreter", &["if_then", "if_else", "if_then_else_mix"]);
    for v in pv {
        rep.add(v);
    }

    let acc = total.into_inner().unwrap();
    let mut seen = HashSet::new();
    rep.violating_cases += acc.violating;
    for v in acc.viol {
        let key = v.signature.clone();
        if seen.insert(key) {
            rep.violations.push(v);
        }
    }
    let mut classes: BTreeMap<&str, u64> = BTreeMap::new();
    classes.insert("programs", acc.programs);
    rep.coverage = json!({
        "states": acc.turns,
        "transitions": acc.turns + handback,
        "traces_validated_against_impl": acc.lockstep_programs,
        "programs_run": acc.programs,
        "programs_in_lockstep_with_reference": acc.lockstep_programs,
        "turns_instrumented": acc.turns,
        "handback_boundaries": handback,
        "immediate_line_calls_instrumented": immediate_calls,
        "break_then_cont_boundaries": cont_calls,
        "clause_ladder_children": ladder_children,
        "max_statement_entries_in_one_call": acc.max_entries,
        "max_work_ratio": acc.max_ratio,
        "work_bound_k": WORK_K,
        "exhaustive": true,
        "samples": ["10 X=X+1: GOTO 10 (200 boundaries, break at each)", "10 FOR I = 1 TO 2: PRINT X | 20 NEXT I (lockstep)"],
    });
    rep.assumptions = vec![
        "work is measured as token-cursor reads counted by the verif-hooks counters".into(),
        "lockstep observable = printed output so far + scalar variables".into(),
    ];
    rep
}

fn merge(total: &Mutex<Acc>, acc: Acc) {
    let mut t = total.lock().unwrap();
    t.programs += acc.programs;
    t.turns += acc.turns;
    t.lockstep_programs += acc.lockstep_programs;
    if acc.max_ratio > t.max_ratio {
        t.max_ratio = acc.max_ratio;
    }
    t.max_entries = t.max_entries.max(acc.max_entries);
    t.violating += acc.violating;
    if t.viol.len() < 200 {
        t.viol.extend(acc.viol);
    }
}
