//! `abasic-ref`: an independent reference model of the BASIC dialect, written from the
//! documented semantics (README, property statements, behaviours pinned by the repository's
//! tests). It is an AST interpreter: it never sees BASIC text. A renderer turns ASTs into the
//! text that is fed to the subject.
//!
//! Deliberately undefined (the checks do not compare these): arithmetic on two strings,
//! `RND(0)` before any positive call.

use std::collections::{BTreeMap, HashMap};

#[derive(Clone, Debug, PartialEq)]
pub enum Val {
    N(f64),
    S(String),
}

impl Val {
    pub fn truthy(&self) -> bool {
        match self {
            Val::N(n) => *n != 0.0,
            Val::S(s) => !s.is_empty(),
        }
    }
    pub fn print(&self) -> String {
        match self {
            Val::N(n) => format!("{}", n),
            Val::S(s) => s.clone(),
        }
    }
    pub fn is_str(&self) -> bool {
        matches!(self, Val::S(_))
    }
}

pub fn is_string_name(name: &str) -> bool {
    name.ends_with('$')
}

pub fn default_for(name: &str) -> Val {
    if is_string_name(name) {
        Val::S(String::new())
    } else {
        Val::N(0.0)
    }
}

#[derive(Clone, Copy, Debug, PartialEq, Eq, Hash, PartialOrd, Ord)]
pub enum Un {
    Plus,
    Neg,
    Not,
}

#[derive(Clone, Copy, Debug, PartialEq, Eq, Hash, PartialOrd, Ord)]
pub enum Bin {
    Pow,
    Mul,
    Div,
    Add,
    Sub,
    Eq,
    Ne,
    Lt,
    Le,
    Gt,
    Ge,
    And,
    Or,
}

pub const ALL_BIN: [Bin; 13] = [
    Bin::Pow,
    Bin::Mul,
    Bin::Div,
    Bin::Add,
    Bin::Sub,
    Bin::Eq,
    Bin::Ne,
    Bin::Lt,
    Bin::Le,
    Bin::Gt,
    Bin::Ge,
    Bin::And,
    Bin::Or,
];

impl Bin {
    /// Precedence tier, higher binds tighter.
    pub fn tier(self) -> u8 {
        match self {
            Bin::Or => 1,
            Bin::And => 2,
            Bin::Eq | Bin::Ne | Bin::Lt | Bin::Le | Bin::Gt | Bin::Ge => 3,
            Bin::Add | Bin::Sub => 4,
            Bin::Mul | Bin::Div => 5,
            Bin::Pow => 6,
        }
    }
    pub fn text(self) -> &'static str {
        match self {
            Bin::Pow => "^",
            Bin::Mul => "*",
            Bin::Div => "/",
            Bin::Add => "+",
            Bin::Sub => "-",
            Bin::Eq => "=",
            Bin::Ne => "<>",
            Bin::Lt => "<",
            Bin::Le => "<=",
            Bin::Gt => ">",
            Bin::Ge => ">=",
            Bin::And => "AND",
            Bin::Or => "OR",
        }
    }
}

impl Un {
    pub fn text(self) -> &'static str {
        match self {
            Un::Plus => "+",
            Un::Neg => "-",
            Un::Not => "NOT ",
        }
    }
}

#[derive(Clone, Debug, PartialEq)]
pub enum Expr {
    Num(f64),
    Str(String),
    Var(String),
    /// `NAME(args)`: a call of a user function if NAME is defined at that moment, otherwise
    /// an array cell.
    Call(String, Vec<Expr>),
    Un(Un, Box<Expr>),
    Bin(Bin, Box<Expr>, Box<Expr>),
    Abs(Box<Expr>),
    Int(Box<Expr>),
    Rnd(Box<Expr>),
}

pub fn num(n: f64) -> Expr {
    Expr::Num(n)
}
pub fn st(s: &str) -> Expr {
    Expr::Str(s.to_string())
}
pub fn var(s: &str) -> Expr {
    Expr::Var(s.to_string())
}
pub fn call(name: &str, args: Vec<Expr>) -> Expr {
    Expr::Call(name.to_string(), args)
}
pub fn bin(op: Bin, l: Expr, r: Expr) -> Expr {
    Expr::Bin(op, Box::new(l), Box::new(r))
}
pub fn un(op: Un, e: Expr) -> Expr {
    Expr::Un(op, Box::new(e))
}

impl Expr {
    fn tier(&self) -> u8 {
        match self {
            Expr::Bin(op, _, _) => op.tier(),
            Expr::Un(_, _) => 7,
            _ => 8,
        }
    }

    /// Text with the fewest parentheses that preserve the tree under the stated rules.
    pub fn render_min(&self) -> String {
        match self {
            Expr::Num(n) => format!("{}", n),
            Expr::Str(s) => format!("\"{}\"", s),
            Expr::Var(v) => v.clone(),
            Expr::Call(name, args) => format!(
                "{}({})",
                name,
                args.iter().map(|a| a.render_min()).collect::<Vec<_>>().join(",")
            ),
            Expr::Abs(e) => format!("ABS({})", e.render_min()),
            Expr::Int(e) => format!("INT({})", e.render_min()),
            Expr::Rnd(e) => format!("RND({})", e.render_min()),
            Expr::Un(op, e) => {
                if e.tier() >= 8 {
                    format!("{}{}", op.text(), e.render_min())
                } else {
                    format!("{}({})", op.text(), e.render_min())
                }
            }
            Expr::Bin(op, l, r) => {
                let t = op.tier();
                let ls = if l.tier() < t {
                    format!("({})", l.render_min())
                } else {
                    l.render_min()
                };
                let rs = if r.tier() <= t {
                    format!("({})", r.render_min())
                } else {
                    r.render_min()
                };
                format!("{} {} {}", ls, op.text(), rs)
            }
        }
    }

    /// Text with every sub-expression parenthesised.
    pub fn render_full(&self) -> String {
        match self {
            Expr::Num(_) | Expr::Str(_) | Expr::Var(_) => format!("({})", self.render_min()),
            Expr::Call(name, args) => format!(
                "({}({}))",
                name,
                args.iter().map(|a| a.render_full()).collect::<Vec<_>>().join(",")
            ),
            Expr::Abs(e) => format!("(ABS({}))", e.render_full()),
            Expr::Int(e) => format!("(INT({}))", e.render_full()),
            Expr::Rnd(e) => format!("(RND({}))", e.render_full()),
            Expr::Un(op, e) => format!("({}{})", op.text(), e.render_full()),
            Expr::Bin(op, l, r) => {
                format!("({} {} {})", l.render_full(), op.text(), r.render_full())
            }
        }
    }

    pub fn count_bin(&self) -> usize {
        match self {
            Expr::Bin(_, l, r) => 1 + l.count_bin() + r.count_bin(),
            Expr::Un(_, e) | Expr::Abs(e) | Expr::Int(e) | Expr::Rnd(e) => e.count_bin(),
            Expr::Call(_, args) => args.iter().map(|a| a.count_bin()).sum(),
            _ => 0,
        }
    }
}

#[derive(Clone, Debug, PartialEq)]
pub struct LVal {
    pub name: String,
    pub index: Option<Vec<Expr>>,
}

pub fn lv(name: &str) -> LVal {
    LVal {
        name: name.to_string(),
        index: None,
    }
}
pub fn lvi(name: &str, index: Vec<Expr>) -> LVal {
    LVal {
        name: name.to_string(),
        index: Some(index),
    }
}

impl LVal {
    pub fn render(&self) -> String {
        match &self.index {
            None => self.name.clone(),
            Some(ix) => format!(
                "{}({})",
                self.name,
                ix.iter().map(|e| e.render_min()).collect::<Vec<_>>().join(",")
            ),
        }
    }
}

#[derive(Clone, Debug, PartialEq)]
pub enum PItem {
    E(Expr),
    Semi,
    Comma,
}

#[derive(Clone, Debug, PartialEq)]
pub enum DataItem {
    N(f64),
    /// A string item; `quoted` only affects rendering.
    S(String, bool),
}

#[derive(Clone, Debug, PartialEq)]
pub enum Branch {
    Line(u64),
    Stmt(Box<Stmt>),
}

#[derive(Clone, Debug, PartialEq)]
pub enum Stmt {
    Print(Vec<PItem>),
    Let(bool, LVal, Expr),
    If(Expr, Branch, Option<Branch>),
    Goto(u64),
    Gosub(u64),
    Return,
    End,
    Stop,
    For(String, Expr, Expr, Option<Expr>),
    Next(String),
    Read(Vec<LVal>),
    Data(Vec<DataItem>),
    Restore,
    Dim(String, Vec<Expr>),
    Def(String, Vec<String>, Expr),
    Input(LVal),
    Rem(String),
}

impl Branch {
    fn render(&self) -> String {
        match self {
            Branch::Line(n) => format!("{}", n),
            Branch::Stmt(s) => s.render(),
        }
    }
}

impl Stmt {
    pub fn render(&self) -> String {
        match self {
            Stmt::Print(items) => {
                let mut s = String::from("PRINT");
                for (i, it) in items.iter().enumerate() {
                    match it {
                        PItem::E(e) => {
                            s.push(' ');
                            s.push_str(&e.render_min());
                        }
                        PItem::Semi => s.push(';'),
                        PItem::Comma => s.push(','),
                    }
                    let _ = i;
                }
                s
            }
            Stmt::Let(kw, l, e) => format!(
                "{}{} = {}",
                if *kw { "LET " } else { "" },
                l.render(),
                e.render_min()
            ),
            Stmt::If(c, t, e) => {
                let mut s = format!("IF {} THEN {}", c.render_min(), t.render());
                if let Some(e) = e {
                    s.push_str(&format!(" ELSE {}", e.render()));
                }
                s
            }
            Stmt::Goto(n) => format!("GOTO {}", n),
            Stmt::Gosub(n) => format!("GOSUB {}", n),
            Stmt::Return => "RETURN".into(),
            Stmt::End => "END".into(),
            Stmt::Stop => "STOP".into(),
            Stmt::For(v, a, b, st) => {
                let mut s = format!("FOR {} = {} TO {}", v, a.render_min(), b.render_min());
                if let Some(st) = st {
                    s.push_str(&format!(" STEP {}", st.render_min()));
                }
                s
            }
            Stmt::Next(v) => format!("NEXT {}", v),
            Stmt::Read(ls) => format!(
                "READ {}",
                ls.iter().map(|l| l.render()).collect::<Vec<_>>().join(",")
            ),
            Stmt::Data(items) => format!(
                "DATA {}",
                items
                    .iter()
                    .map(|i| match i {
                        DataItem::N(n) => format!("{}", n),
                        DataItem::S(s, true) => format!("\"{}\"", s),
                        DataItem::S(s, false) => s.clone(),
                    })
                    .collect::<Vec<_>>()
                    .join(",")
            ),
            Stmt::Restore => "RESTORE".into(),
            Stmt::Dim(n, ix) => format!(
                "DIM {}({})",
                n,
                ix.iter().map(|e| e.render_min()).collect::<Vec<_>>().join(",")
            ),
            Stmt::Def(n, ps, body) => {
                format!("DEF {}({}) = {}", n, ps.join(","), body.render_min())
            }
            Stmt::Input(l) => format!("INPUT {}", l.render()),
            Stmt::Rem(t) => format!("REM{}", t),
        }
    }
}

pub type ProgramAst = BTreeMap<u64, Vec<Stmt>>;

pub fn render_line(number: u64, stmts: &[Stmt]) -> String {
    format!(
        "{} {}",
        number,
        stmts.iter().map(|s| s.render()).collect::<Vec<_>>().join(": ")
    )
}

pub fn render_program(p: &ProgramAst) -> Vec<String> {
    p.iter().map(|(n, s)| render_line(*n, s)).collect()
}

// ---------------------------------------------------------------------------------------
// Evaluation

/// Failure kinds, named exactly like the `Debug` rendering of the subject's error enum so
/// that the comparison needs no translation table.
#[derive(Clone, Debug, PartialEq)]
pub enum Fail {
    Kind(&'static str),
    /// The documented semantics do not say what happens; the caller must not compare.
    Undefined(&'static str),
}

pub const TYPE_MISMATCH: Fail = Fail::Kind("TypeMismatch");
pub const DIV_ZERO: Fail = Fail::Kind("DivisionByZero");
pub const BAD_SUBSCRIPT: Fail = Fail::Kind("BadSubscript");
pub const ILLEGAL_QUANTITY: Fail = Fail::Kind("IllegalQuantity");
pub const STACK_OVERFLOW: Fail = Fail::Kind("OutOfMemory(StackOverflow)");
pub const ARRAY_TOO_LARGE: Fail = Fail::Kind("OutOfMemory(ArrayTooLarge)");
pub const OUT_OF_DATA: Fail = Fail::Kind("OutOfData");
pub const DATA_TYPE_MISMATCH: Fail = Fail::Kind("DataTypeMismatch");
pub const RETURN_WITHOUT_GOSUB: Fail = Fail::Kind("ReturnWithoutGosub");
pub const NEXT_WITHOUT_FOR: Fail = Fail::Kind("NextWithoutFor");
pub const UNDEFINED_STATEMENT: Fail = Fail::Kind("UndefinedStatement");
pub const REDIM: Fail = Fail::Kind("RedimensionedArray");
pub const UNIMPLEMENTED: Fail = Fail::Kind("Unimplemented");
pub const EXPECTED_COMMA: Fail = Fail::Kind("Syntax(ExpectedToken(Comma))");
pub const EXPECTED_RPAREN: Fail = Fail::Kind("Syntax(ExpectedToken(RightParen))");

pub const STACK_LIMIT: usize = 32;
pub const MAX_CELLS: u128 = 10000;

pub const LCG_A: u64 = 1664525;
pub const LCG_C: u64 = 1013904223;
pub const LCG_M: u64 = 1 << 33;

pub fn lcg_next(state: u64) -> u64 {
    (((state as u128) * (LCG_A as u128) + (LCG_C as u128)) % (LCG_M as u128)) as u64
}

pub fn lcg_value(state: u64) -> f64 {
    (state as f64) / (LCG_M as f64)
}

#[derive(Clone, Debug, PartialEq)]
pub struct Arr {
    pub dims: Vec<usize>,
    /// Cells keyed by subscript tuple; absent = default.
    pub cells: HashMap<Vec<usize>, Val>,
}

#[derive(Clone, Debug, PartialEq)]
pub enum Pos {
    /// Before statement `idx` of the line (idx may equal the line's length = end of line).
    At(u64, usize),
    /// Control came back to the ELSE of an IF whose THEN statement had been selected:
    /// the rest of the line is skipped.
    ElseSkip(u64),
    Ended,
}

#[derive(Clone, Debug, PartialEq)]
pub struct Loop {
    pub var: String,
    pub to: f64,
    pub step: f64,
    pub resume: Pos,
}

#[derive(Clone, Debug, PartialEq)]
pub enum Frame {
    Sub(Pos),
    Fn(Vec<(String, Val)>),
}

#[derive(Clone, Debug, PartialEq)]
pub struct FnDef {
    pub params: Vec<String>,
    pub body: Expr,
    pub line: u64,
}

#[derive(Clone, Debug, PartialEq)]
pub enum MEvent {
    Print(String),
    ExtraIgnored,
    Reenter,
    Warning(String, u64),
    Visit(u64),
}

#[derive(Clone, Debug, PartialEq)]
pub enum Step {
    Ran,
    NeedInput,
    Ended,
    Stopped(u64),
    Err(Fail, Option<u64>),
}

#[derive(Clone, Debug)]
pub struct Machine {
    pub lines: ProgramAst,
    pub pos: Pos,
    pub vars: HashMap<String, Val>,
    pub arrays: HashMap<String, Arr>,
    pub loops: Vec<Loop>,
    pub frames: Vec<Frame>,
    pub fns: HashMap<String, FnDef>,
    pub data: Option<Vec<(u64, DataItem)>>,
    pub data_idx: usize,
    /// Line of the DATA item most recently consumed.
    pub data_line: Option<u64>,
    pub rng: u64,
    pub rng_stepped: bool,
    pub events: Vec<MEvent>,
    pub warnings: bool,
    /// Line whose text is being evaluated (the DEF line inside a function body).
    pub cur_line: u64,
    pub steps: u64,
    /// An INPUT statement has been reached and waits for a reply: (target, continuation, line).
    pub pending_input: Option<(LVal, Pos, u64)>,
    /// Number of control transfers executed (GOTO, GOSUB, RETURN, loop back-edges, THEN line).
    pub jumps: u64,
}

type R<T> = Result<T, Fail>;

impl Machine {
    pub fn new(lines: ProgramAst, seed: u64) -> Self {
        let pos = match lines.keys().next() {
            Some(first) => Pos::At(*first, 0),
            None => Pos::Ended,
        };
        Machine {
            lines,
            pos,
            vars: HashMap::new(),
            arrays: HashMap::new(),
            loops: vec![],
            frames: vec![],
            fns: HashMap::new(),
            data: None,
            data_idx: 0,
            data_line: None,
            rng: seed % LCG_M,
            rng_stepped: false,
            events: vec![],
            warnings: false,
            cur_line: 0,
            steps: 0,
            pending_input: None,
            jumps: 0,
        }
    }

    pub fn output(&self) -> String {
        let mut s = String::new();
        for e in &self.events {
            if let MEvent::Print(p) = e {
                s.push_str(p);
            }
        }
        s
    }

    fn warn(&mut self, msg: String) {
        if self.warnings {
            self.events.push(MEvent::Warning(msg, self.cur_line));
        }
    }

    fn lookup(&mut self, name: &str) -> Val {
        for f in self.frames.iter().rev() {
            if let Frame::Fn(b) = f {
                for (n, v) in b {
                    if n == name {
                        return v.clone();
                    }
                }
            }
        }
        match self.vars.get(name) {
            Some(v) => v.clone(),
            None => {
                self.warn(format!("Use of undeclared variable '{}'.", name));
                default_for(name)
            }
        }
    }

    fn eval_index(&mut self, ix: &[Expr]) -> R<Vec<usize>> {
        let mut out = vec![];
        for e in ix {
            match self.eval(e)? {
                Val::N(n) => {
                    // Subscripts are truncated toward zero; negative ones are illegal.
                    let t = n.trunc();
                    if t < 0.0 {
                        return Err(ILLEGAL_QUANTITY);
                    }
                    let i = if t.is_nan() {
                        0
                    } else if t >= 9.2e18 {
                        usize::MAX >> 1
                    } else {
                        t as usize
                    };
                    out.push(i);
                }
                Val::S(_) => return Err(TYPE_MISMATCH),
            }
        }
        Ok(out)
    }

    fn ensure_array(&mut self, name: &str, ndims: usize) -> R<()> {
        if !self.arrays.contains_key(name) {
            let arr = make_array(&vec![10; ndims])?;
            self.arrays.insert(name.to_string(), arr);
        }
        Ok(())
    }

    fn cell_get(&mut self, name: &str, ix: &[usize]) -> R<Val> {
        if !self.arrays.contains_key(name) {
            self.warn(format!("Use of undeclared array '{}'.", name));
        }
        self.ensure_array(name, ix.len())?;
        let arr = self.arrays.get(name).unwrap();
        check_subscript(arr, ix)?;
        Ok(arr.cells.get(ix).cloned().unwrap_or_else(|| default_for(name)))
    }

    fn cell_set(&mut self, name: &str, ix: &[usize], v: Val) -> R<()> {
        if !self.arrays.contains_key(name) {
            self.warn(format!("Use of undeclared array '{}'.", name));
        }
        if v.is_str() != is_string_name(name) {
            return Err(TYPE_MISMATCH);
        }
        self.ensure_array(name, ix.len())?;
        let arr = self.arrays.get_mut(name).unwrap();
        check_subscript(arr, ix)?;
        arr.cells.insert(ix.to_vec(), v);
        Ok(())
    }

    fn assign(&mut self, l: &LVal, ix: Option<Vec<usize>>, v: Val) -> R<()> {
        match ix {
            Some(ix) => self.cell_set(&l.name, &ix, v),
            None => {
                if v.is_str() != is_string_name(&l.name) {
                    return Err(TYPE_MISMATCH);
                }
                self.vars.insert(l.name.clone(), v);
                Ok(())
            }
        }
    }

    fn want_num(v: Val) -> R<f64> {
        match v {
            Val::N(n) => Ok(n),
            Val::S(_) => Err(TYPE_MISMATCH),
        }
    }

    pub fn eval(&mut self, e: &Expr) -> R<Val> {
        Ok(match e {
            Expr::Num(n) => Val::N(*n),
            Expr::Str(s) => Val::S(s.clone()),
            Expr::Var(v) => self.lookup(v),
            Expr::Abs(a) => Val::N(Self::want_num(self.eval(a)?)?.abs()),
            Expr::Int(a) => Val::N(Self::want_num(self.eval(a)?)?.floor()),
            Expr::Rnd(a) => {
                let x = Self::want_num(self.eval(a)?)?;
                if x < 0.0 {
                    return Err(UNIMPLEMENTED);
                } else if x == 0.0 {
                    if !self.rng_stepped {
                        return Err(Fail::Undefined("RND(0) before any positive call"));
                    }
                    Val::N(lcg_value(self.rng))
                } else {
                    self.rng = lcg_next(self.rng);
                    self.rng_stepped = true;
                    Val::N(lcg_value(self.rng))
                }
            }
            Expr::Call(name, args) => {
                if let Some(def) = self.fns.get(name).cloned() {
                    // Arguments are evaluated left to right and bound one by one; a missing
                    // argument is noticed when the separator is looked for, a surplus one when
                    // the closing parenthesis is.
                    let mut bindings: Vec<(String, Val)> = vec![];
                    for (i, p) in def.params.iter().enumerate() {
                        let Some(a) = args.get(i) else {
                            return Err(EXPECTED_COMMA);
                        };
                        let v = self.eval(a)?;
                        if v.is_str() != is_string_name(p) {
                            return Err(TYPE_MISMATCH);
                        }
                        bindings.retain(|(n, _)| n != p);
                        bindings.push((p.clone(), v));
                    }
                    if args.len() > def.params.len() {
                        return Err(EXPECTED_RPAREN);
                    }
                    if self.frames.len() >= STACK_LIMIT {
                        return Err(STACK_OVERFLOW);
                    }
                    self.frames.push(Frame::Fn(bindings));
                    let saved = self.cur_line;
                    self.cur_line = def.line;
                    // On failure the line stays at the DEF: that is where the failing text is.
                    let v = self.eval(&def.body)?;
                    self.cur_line = saved;
                    self.frames.pop();
                    v
                } else {
                    let ix = self.eval_index(args)?;
                    self.cell_get(name, &ix)?
                }
            }
            Expr::Un(op, a) => {
                let v = self.eval(a)?;
                match op {
                    Un::Plus => match v {
                        Val::N(n) => Val::N(n),
                        // The property speaks of "mixing" kinds; unary plus on a string is
                        // not covered by it.
                        Val::S(_) => return Err(Fail::Undefined("unary plus on a string")),
                    },
                    Un::Neg => Val::N(-Self::want_num(v)?),
                    Un::Not => Val::N(if v.truthy() { 0.0 } else { 1.0 }),
                }
            }
            Expr::Bin(op, l, r) => {
                let a = self.eval(l)?;
                let b = self.eval(r)?;
                apply_bin(*op, a, b)?
            }
        })
    }

    fn line_len(&self, line: u64) -> usize {
        self.lines.get(&line).map(|l| l.len()).unwrap_or(0)
    }

    fn next_line_after(&self, line: u64) -> Pos {
        use std::ops::Bound::*;
        match self.lines.range((Excluded(line), Unbounded)).next() {
            Some((n, _)) => Pos::At(*n, 0),
            None => Pos::Ended,
        }
    }

    /// Normalises an end-of-line position to the start of the following line.
    fn norm(&self, p: Pos) -> Pos {
        match p {
            Pos::At(line, idx) if idx >= self.line_len(line) => self.next_line_after(line),
            other => other,
        }
    }

    fn goto(&mut self, n: u64) -> R<()> {
        if self.lines.contains_key(&n) {
            self.pos = Pos::At(n, 0);
            self.jumps += 1;
            Ok(())
        } else {
            Err(UNDEFINED_STATEMENT)
        }
    }

    fn data_list(&mut self) -> &Vec<(u64, DataItem)> {
        if self.data.is_none() {
            let mut v = vec![];
            for (n, stmts) in &self.lines {
                for s in stmts {
                    collect_data(*n, s, &mut v);
                }
            }
            self.data = Some(v);
            self.data_idx = 0;
        }
        self.data.as_ref().unwrap()
    }

    /// The numbered line execution stands on (None once the program has ended).
    pub fn peek_line(&mut self) -> Option<u64> {
        if let Some((_, _, line)) = &self.pending_input {
            return Some(*line);
        }
        self.pos = self.norm(self.pos.clone());
        match &self.pos {
            Pos::At(l, _) => Some(*l),
            Pos::ElseSkip(l) => Some(*l),
            Pos::Ended => None,
        }
    }

    /// Executes the statement at the current position. `reply`: text available for an INPUT.
    pub fn step(&mut self, reply: Option<&str>) -> Step {
        if let Some((l, cont, line)) = self.pending_input.clone() {
            let Some(reply) = reply else {
                return Step::NeedInput;
            };
            self.pending_input = None;
            self.steps += 1;
            self.cur_line = line;
            self.events.push(MEvent::Visit(line));
            self.pos = cont.clone();
            return match self.do_input(&l, reply) {
                Ok(true) => {
                    self.pos = self.norm(self.pos.clone());
                    if self.pos == Pos::Ended {
                        Step::Ended
                    } else {
                        Step::Ran
                    }
                }
                Ok(false) => {
                    self.pending_input = Some((l, cont, line));
                    Step::NeedInput
                }
                Err(f) => Step::Err(f, Some(self.cur_line)),
            };
        }
        self.pos = self.norm(self.pos.clone());
        let (line, idx) = match self.pos.clone() {
            Pos::Ended => return Step::Ended,
            Pos::ElseSkip(line) => {
                self.steps += 1;
                self.events.push(MEvent::Visit(line));
                self.pos = self.next_line_after(line);
                self.pos = self.norm(self.pos.clone());
                return if self.pos == Pos::Ended { Step::Ended } else { Step::Ran };
            }
            Pos::At(l, i) => (l, i),
        };
        let stmt = self.lines[&line][idx].clone();
        self.steps += 1;
        self.cur_line = line;
        self.events.push(MEvent::Visit(line));
        let after = Pos::At(line, idx + 1);
        self.pos = after.clone();
        match self.exec(&stmt, after, line, reply) {
            Ok(Flow::Normal) => {
                self.pos = self.norm(self.pos.clone());
                if self.pos == Pos::Ended {
                    Step::Ended
                } else {
                    Step::Ran
                }
            }
            Ok(Flow::Stop) => Step::Stopped(line),
            Ok(Flow::NeedInput) => Step::NeedInput,
            Err(f) => {
                let l = if f == DATA_TYPE_MISMATCH {
                    self.data_line
                } else {
                    Some(self.cur_line)
                };
                Step::Err(f, l)
            }
        }
    }

    fn exec(&mut self, stmt: &Stmt, after: Pos, line: u64, reply: Option<&str>) -> R<Flow> {
        match stmt {
            Stmt::Rem(_) | Stmt::Data(_) => {
                if matches!(stmt, Stmt::Rem(_)) {
                    self.pos = self.next_line_after(line);
                }
            }
            Stmt::Print(items) => {
                let mut s = String::new();
                let mut newline = true;
                for it in items {
                    match it {
                        PItem::E(e) => {
                            s.push_str(&self.eval(e)?.print());
                            newline = true;
                        }
                        PItem::Semi => newline = false,
                        PItem::Comma => {
                            s.push('\t');
                            newline = true;
                        }
                    }
                }
                if newline {
                    s.push('\n');
                }
                self.events.push(MEvent::Print(s));
            }
            Stmt::Let(_, l, e) => {
                let ix = match &l.index {
                    Some(ix) => Some(self.eval_index(ix)?),
                    None => None,
                };
                let v = self.eval(e)?;
                self.assign(l, ix, v)?;
            }
            Stmt::If(c, t, e) => {
                let cond = self.eval(c)?.truthy();
                if cond {
                    let cont = if e.is_some() { Pos::ElseSkip(line) } else { after };
                    let flow = self.exec_branch(t, cont, line, reply)?;
                    // A THEN statement that completed without transferring control: the IF
                    // itself skips the ELSE clause and the rest of the line right away. The
                    // ElseSkip position only survives as a return address (GOSUB frame, FOR
                    // resume point, pending INPUT).
                    if matches!(flow, Flow::Normal) && self.pos == Pos::ElseSkip(line) {
                        self.pos = self.next_line_after(line);
                    }
                    return Ok(flow);
                } else if let Some(e) = e {
                    return self.exec_branch(e, after, line, reply);
                } else {
                    self.pos = self.next_line_after(line);
                }
            }
            Stmt::Goto(n) => self.goto(*n)?,
            Stmt::Gosub(n) => {
                if self.frames.len() >= STACK_LIMIT {
                    return Err(STACK_OVERFLOW);
                }
                self.goto(*n)?;
                self.frames.push(Frame::Sub(after));
            }
            Stmt::Return => match self.frames.pop() {
                Some(Frame::Sub(p)) => {
                    self.pos = p;
                    self.jumps += 1;
                }
                _ => return Err(RETURN_WITHOUT_GOSUB),
            },
            Stmt::End => self.pos = Pos::Ended,
            Stmt::Stop => return Ok(Flow::Stop),
            Stmt::For(v, a, b, st) => {
                let from = Self::want_num(self.eval(a)?)?;
                let to = Self::want_num(self.eval(b)?)?;
                let step = match st {
                    Some(s) => Self::want_num(self.eval(s)?)?,
                    None => 1.0,
                };
                if let Some(i) = self.loops.iter().rposition(|l| &l.var == v) {
                    self.loops.truncate(i);
                }
                if self.loops.len() >= STACK_LIMIT {
                    return Err(STACK_OVERFLOW);
                }
                self.loops.push(Loop {
                    var: v.clone(),
                    to,
                    step,
                    resume: after,
                });
                if is_string_name(v) {
                    return Err(TYPE_MISMATCH);
                }
                self.vars.insert(v.clone(), Val::N(from));
            }
            Stmt::Next(v) => {
                let cur = self.vars.get(v).cloned().unwrap_or_else(|| default_for(v));
                let cur = Self::want_num(cur)?;
                let Some(i) = self.loops.iter().rposition(|l| &l.var == v) else {
                    return Err(NEXT_WITHOUT_FOR);
                };
                let lp = self.loops[i].clone();
                self.loops.truncate(i);
                let nv = cur + lp.step;
                let again = if lp.step >= 0.0 { nv <= lp.to } else { nv >= lp.to };
                if again {
                    self.jumps += 1;
                    self.pos = lp.resume.clone();
                    self.loops.push(lp);
                }
                self.vars.insert(v.clone(), Val::N(nv));
            }
            Stmt::Read(ls) => {
                for l in ls {
                    let ix = match &l.index {
                        Some(ix) => Some(self.eval_index(ix)?),
                        None => None,
                    };
                    let i = self.data_idx;
                    let item = self.data_list().get(i).cloned();
                    let Some((dl, item)) = item else {
                        return Err(OUT_OF_DATA);
                    };
                    self.data_idx = i + 1;
                    self.data_line = Some(dl);
                    let v = coerce(&l.name, &item)?;
                    self.assign(l, ix, v)?;
                }
            }
            Stmt::Restore => {
                self.data = None;
                self.data_idx = 0;
            }
            Stmt::Dim(name, ix) => {
                let ix = self.eval_index(ix)?;
                if self.arrays.contains_key(name) {
                    return Err(REDIM);
                }
                let arr = make_array(&ix)?;
                self.arrays.insert(name.clone(), arr);
            }
            Stmt::Def(name, params, body) => {
                self.fns.insert(
                    name.clone(),
                    FnDef {
                        params: params.clone(),
                        body: body.clone(),
                        line,
                    },
                );
            }
            Stmt::Input(l) => {
                // Nothing of the statement is evaluated until a reply is available.
                let _ = reply;
                self.pending_input = Some((l.clone(), self.pos.clone(), line));
                return Ok(Flow::NeedInput);
            }
        }
        Ok(Flow::Normal)
    }

    /// Consumes a reply for the pending INPUT. Ok(false) = unsuitable reply, ask again.
    fn do_input(&mut self, l: &LVal, reply: &str) -> R<bool> {
        // Whether the reply suits the variable depends on the variable's name only; an
        // unsuitable reply repeats the request with nothing else evaluated (no subscript).
        let (first, extra) = split_reply(reply);
        match coerce(&l.name, &first) {
            Ok(v) => {
                let ix = match &l.index {
                    Some(ix) => Some(self.eval_index(ix)?),
                    None => None,
                };
                self.assign(l, ix, v)?;
                if extra {
                    self.events.push(MEvent::ExtraIgnored);
                }
                Ok(true)
            }
            Err(_) => {
                self.events.push(MEvent::Reenter);
                Ok(false)
            }
        }
    }

    fn exec_branch(&mut self, b: &Branch, cont: Pos, line: u64, reply: Option<&str>) -> R<Flow> {
        match b {
            Branch::Line(n) => {
                self.goto(*n)?;
                Ok(Flow::Normal)
            }
            Branch::Stmt(s) => {
                self.events.push(MEvent::Visit(line));
                self.pos = cont.clone();
                self.exec(s, cont, line, reply)
            }
        }
    }
}

pub enum Flow {
    Normal,
    Stop,
    NeedInput,
}

fn collect_data(line: u64, s: &Stmt, out: &mut Vec<(u64, DataItem)>) {
    match s {
        Stmt::Data(items) => {
            for i in items {
                out.push((line, i.clone()));
            }
        }
        Stmt::If(_, t, e) => {
            if let Branch::Stmt(s) = t {
                collect_data(line, s, out);
            }
            if let Some(Branch::Stmt(s)) = e {
                collect_data(line, s, out);
            }
        }
        _ => {}
    }
}

/// A reply is a list of items like a DATA line; only the first item is used.
pub fn split_reply(reply: &str) -> (DataItem, bool) {
    let t = reply.trim_start();
    if let Some(rest) = t.strip_prefix('"') {
        if let Some(end) = rest.find('"') {
            let s = rest[..end].to_string();
            let tail = rest[end + 1..].trim();
            return (DataItem::S(s, true), !tail.is_empty());
        }
        return (DataItem::S(rest.to_string(), true), false);
    }
    let cut = reply.find(|c| c == ',' || c == ':');
    let (first, extra) = match cut {
        Some(i) => (&reply[..i], true),
        None => (reply, false),
    };
    let f = first.trim();
    match f.parse::<f64>() {
        Ok(n) => (DataItem::N(n), extra),
        Err(_) => (DataItem::S(f.to_string(), false), extra),
    }
}

pub fn coerce(name: &str, item: &DataItem) -> R<Val> {
    if is_string_name(name) {
        Ok(match item {
            DataItem::S(s, _) => Val::S(s.clone()),
            DataItem::N(n) => Val::S(format!("{}", n)),
        })
    } else {
        match item {
            DataItem::S(_, _) => Err(DATA_TYPE_MISMATCH),
            DataItem::N(n) => Ok(Val::N(*n)),
        }
    }
}

pub fn make_array(max: &[usize]) -> R<Arr> {
    if max.is_empty() {
        return Err(BAD_SUBSCRIPT);
    }
    let mut total: u128 = 1;
    for m in max {
        total = total.saturating_mul(*m as u128 + 1);
    }
    if total > MAX_CELLS {
        return Err(ARRAY_TOO_LARGE);
    }
    Ok(Arr {
        dims: max.iter().map(|m| m + 1).collect(),
        cells: HashMap::new(),
    })
}

fn check_subscript(arr: &Arr, ix: &[usize]) -> R<()> {
    if ix.len() != arr.dims.len() {
        return Err(BAD_SUBSCRIPT);
    }
    for (i, d) in ix.iter().zip(&arr.dims) {
        if i >= d {
            return Err(BAD_SUBSCRIPT);
        }
    }
    Ok(())
}

pub fn apply_bin(op: Bin, a: Val, b: Val) -> R<Val> {
    use Bin::*;
    let b01 = |c: bool| Val::N(if c { 1.0 } else { 0.0 });
    Ok(match op {
        And => b01(a.truthy() && b.truthy()),
        Or => b01(a.truthy() || b.truthy()),
        Eq | Ne | Lt | Le | Gt | Ge => match (&a, &b) {
            (Val::N(x), Val::N(y)) => b01(cmp(op, x.partial_cmp(y))),
            (Val::S(x), Val::S(y)) => b01(cmp(op, Some(x.as_bytes().cmp(y.as_bytes())))),
            _ => return Err(TYPE_MISMATCH),
        },
        Pow | Mul | Div | Add | Sub => match (&a, &b) {
            (Val::N(x), Val::N(y)) => Val::N(match op {
                Pow => x.powf(*y),
                Mul => x * y,
                Div => {
                    if *y == 0.0 {
                        return Err(DIV_ZERO);
                    }
                    x / y
                }
                Add => x + y,
                Sub => x - y,
                _ => unreachable!(),
            }),
            (Val::S(_), Val::S(_)) => return Err(Fail::Undefined("arithmetic on two strings")),
            _ => return Err(TYPE_MISMATCH),
        },
    })
}

fn cmp(op: Bin, o: Option<std::cmp::Ordering>) -> bool {
    use std::cmp::Ordering::*;
    match (op, o) {
        (Bin::Ne, None) => true,
        (_, None) => false,
        (Bin::Eq, Some(o)) => o == Equal,
        (Bin::Ne, Some(o)) => o != Equal,
        (Bin::Lt, Some(o)) => o == Less,
        (Bin::Le, Some(o)) => o != Greater,
        (Bin::Gt, Some(o)) => o == Greater,
        (Bin::Ge, Some(o)) => o != Less,
        _ => unreachable!(),
    }
}
