//! C05 — static analysis terminates on every file and yields well-formed diagnostics.
//! Shape B: all files of <= n lines over a line menu, all strings of <= m characters over a
//! character alphabet, and the nesting grid in isolated children.

use crate::common::*;
use crate::gen::*;
use abasic_core::{DiagnosticMessage, SourceFileAnalyzer};
use rayon::prelude::*;
use serde_json::json;
use std::collections::{BTreeMap, HashSet};

pub fn line_menu() -> Vec<&'static str> {
    vec![
        "10 X = 1",
        "10 PRINT X",
        "10",
        "10 PRINT 1 +",
        "10 PRINT \"",
        "10 é",
        "10 PRINT \"é\" + 1",
        "10 REM é",
        "20 GOTO 10",
        "20 GOTO 99",
        "20 X$ = 1",
        "20",
        "20 PRINT \"",
        "30 FOR I = 1 TO 2",
        "40 NEXT I",
        "50 DEF FNA(X) = X",
        "60 PRINT FNA(1)",
        "70 DATA 1, \"a\"",
        "80 READ A",
        "90 INPUT B",
        "100 IF X THEN 10 ELSE 20",
        "100 IF X THEN PRINT 1 ELSE PRINT 2 ELSE PRINT 3",
        "100 IF X THEN ELSE ELSE",
        "110 DIM A(3)",
        "PRINT 1",
        "REM note",
        "50 DEF FNA() = 5",
        "60 PRINT FNA()",
        // DATA items behind blanks of more than one byte; two line numbers that agree in their low 32 bits
        "70 DATA\u{a0}1,\u{3000}\u{e9}: PRINT 1 +",
        "4294967306 PRINT 1",
        "",
        "   ",
        "10 X = 1\r",
        " 10 X=1",
        "18446744073709551615 END",
        "18446744073709551616 END",
        "20 Y = Z(1) + \"é\" + %",
        // the same text with more trailing blanks / a CR (ranges of unterminated strings, REM
        // and DATA run to the end of the line)
        "10 PRINT \"  ",
        "10 REM é \r",
    ]
}

/// Lines sharing number 10 or 20 (duplicates are where the line map can go stale).
pub fn dup_menu() -> Vec<&'static str> {
    line_menu()
        .into_iter()
        .filter(|l| l.trim_start().starts_with("10") || l.starts_with("20"))
        .collect()
}

pub fn check_file(text: &str) -> Option<(String, String)> {
    let text_owned = text.to_string();
    let r = watch_text("file", text, || guarded(move || {
        let a = SourceFileAnalyzer::analyze(text_owned.clone());
        let lines: Vec<&str> = text_owned.split('\n').collect();
        if a.token_types().len() != lines.len() {
            return Some((
                "token list count".to_string(),
                format!("{} token lists for {} file lines", a.token_types().len(), lines.len()),
            ));
        }
        for m in a.messages() {
            let named = match m {
                DiagnosticMessage::Warning(l, _, _) => *l,
                DiagnosticMessage::Error(l, _) => *l,
            };
            let what = match m {
                DiagnosticMessage::Warning(_, _, t) => format!("warning {:?}", t),
                DiagnosticMessage::Error(_, e) => format!("error {}", err_kind(&e.error)),
            };
            let Some((line, range)) = a.source_file_map().map_to_source(m) else {
                return Some(("unmappable diagnostic".to_string(), format!("{} on file line {} has no source position", what, named)));
            };
            if line != named {
                return Some(("diagnostic on wrong line".to_string(), format!("{} names file line {} but maps to line {}", what, named, line)));
            }
            let Some(src) = lines.get(line) else {
                return Some(("diagnostic line out of file".to_string(), format!("{} maps to line {} of {}", what, line, lines.len())));
            };
            if !(range.start <= range.end && range.end <= src.len()) {
                return Some(("diagnostic range out of bounds".to_string(), format!("{} range {:?} on a line of {} bytes", what, range, src.len())));
            }
            if !src.is_char_boundary(range.start) || !src.is_char_boundary(range.end) {
                return Some(("diagnostic range splits a character".to_string(), format!("{} range {:?} in {:?}", what, range, src)));
            }
        }
        // A type / syntax error must be blamed on a file line that, analysed on its own, has
        // that very error (the verdict on a line's own text does not depend on its neighbours).
        for m in a.messages() {
            if let DiagnosticMessage::Error(l, e) = m {
                let kind = err_kind(&e.error);
                if kind == "TypeMismatch" || kind.starts_with("Syntax(Unexpected") || kind.starts_with("Syntax(Expected") {
                    let src = lines.get(*l).copied().unwrap_or("").to_string();
                    let alone = SourceFileAnalyzer::analyze(src.clone());
                    let same = alone.messages().iter().any(|x| matches!(x, DiagnosticMessage::Error(_, e2) if err_kind(&e2.error) == kind));
                    if !same {
                        return Some(("error blamed on a line that does not have it".to_string(), format!("{} reported on file line {} ({:?}), which analysed alone has no such error", kind, l, src)));
                    }
                }
            }
        }
        // the lines the analyzer hands out (front ends print them under a caret, slice them by the
        // ranges) are the ones its ranges refer to
        let own = a.source_file_lines();
        if own.len() != lines.len() {
            return Some(("analyzer's own line list has another length".to_string(), format!("{} lines handed out for a file of {} lines", own.len(), lines.len())));
        }
        for m in a.messages() {
            if let Some((line, range)) = a.source_file_map().map_to_source(m) {
                let src = &own[line];
                if range.end > src.len() || !src.is_char_boundary(range.start) || !src.is_char_boundary(range.end) {
                    return Some(("diagnostic range does not fit the line the analyzer hands out".to_string(), format!("range {:?} on the analyzer's line {} = {:?}", range, line, src)));
                }
            }
        }
        for (i, toks) in a.token_types().iter().enumerate() {
            for (k, (_, r)) in toks.iter().enumerate() {
                let src = &own[i];
                if r.end > src.len() || !src.is_char_boundary(r.start) || !src.is_char_boundary(r.end) {
                    return Some(("token range does not fit the line the analyzer hands out".to_string(), format!("token {} range {:?} on the analyzer's line {} = {:?}", k, r, i, src)));
                }
            }
        }
        for (i, toks) in a.token_types().iter().enumerate() {
            let src = lines[i];
            let mut prev_end = 0usize;
            for (k, (_, r)) in toks.iter().enumerate() {
                if !(r.start < r.end && r.end <= src.len()) {
                    return Some(("token range out of bounds".to_string(), format!("token {} range {:?} in {:?}", k, r, src)));
                }
                if k > 0 && r.start < prev_end {
                    return Some(("token ranges overlap".to_string(), format!("token {} range {:?} starts before {}", k, r, prev_end)));
                }
                if !src.is_char_boundary(r.start) || !src.is_char_boundary(r.end) {
                    return Some(("token range splits a character".to_string(), format!("token {} range {:?} in {:?}", k, r, src)));
                }
                prev_end = r.end;
            }
        }
        None
    }));
    match r {
        Ok(x) => x,
        Err(p) => Some((format!("panic {}", short_panic(&p)), format!("analyze panicked: {}", p))),
    }
}

pub fn run(thorough: bool) -> Report {
    let mut rep = Report::new("C05", "exploration");
    let menu = line_menu();
    let dups = dup_menu();
    let mut files = 0u64;
    let mut seen: HashSet<String> = HashSet::new();
    let mut by_sig: BTreeMap<String, (u64, String, String)> = BTreeMap::new();
    let mut note = |sig: String, detail: String, text: String, by_sig: &mut BTreeMap<String, (u64, String, String)>| {
        let e = by_sig.entry(sig).or_insert((0, text.clone(), detail.clone()));
        e.0 += 1;
        if text.len() < e.1.len() {
            e.1 = text;
            e.2 = detail;
        }
    };
    let _ = &mut seen;
    let mut outcomes: BTreeMap<String, u64> = BTreeMap::new();
    let mut run_menu = |m: &Vec<&'static str>, n: usize, by_sig: &mut BTreeMap<String, (u64, String, String)>, files: &mut u64| {
        let base = m.len() as u64;
        for len in 1..=n {
            let count = pow(base, len);
            *files += count;
            let v: Vec<(String, String, String)> = (0..count)
                .into_par_iter()
                .filter_map(|i| {
                    let text = decode_seq(i, base, len).iter().map(|k| m[*k]).collect::<Vec<_>>().join("\n");
                    check_file(&text).map(|(s, d)| (s, d, text))
                })
                .collect();
            for (s, d, t) in v {
                note(s, d, t, by_sig);
            }
        }
    };
    let n1 = if thorough { 4 } else { 3 };
    run_menu(&menu, n1, &mut by_sig, &mut files);
    let n2 = if thorough { 6 } else { 4 };
    run_menu(&dups, n2, &mut by_sig, &mut files);

    // long files: one menu line repeated 120 times followed by another menu line (counts of
    // lines / diagnostics beyond any small threshold)
    {
        let pairs: Vec<(usize, usize)> = (0..menu.len()).flat_map(|a| (0..menu.len()).map(move |b| (a, b))).collect();
        files += pairs.len() as u64;
        let v: Vec<(String, String, String)> = pairs
            .par_iter()
            .filter_map(|(a, b)| {
                let mut text = vec![menu[*a]; 120].join("\n");
                text.push('\n');
                text.push_str(menu[*b]);
                text.push('\n');
                check_file(&text).map(|(s, d)| (s, d, format!("{:?} x 120 + {:?}", menu[*a], menu[*b])))
            })
            .collect();
        for (s, d, t) in v {
            note(format!("{} (long file)", s), d, t, &mut by_sig);
        }
    }

    // lines longer than 16-bit offsets reach, with a multi-byte character across byte 65535
    {
        let mut jobs: Vec<String> = vec![];
        for pad in [32760usize, 32761, 32762, 32763, 40000] {
            for tail in ["\" : B$ = 5", "\" + 1", "", "\": GOTO 99"] {
                jobs.push(format!("10 PRINT \"{}{}", "é".repeat(pad), tail));
                jobs.push(format!("10 X = 1\n20 REM {}\n30 PRINT \"{}{}", "x".repeat(10), "é".repeat(pad), tail));
            }
            jobs.push(format!("10 PRINT {}1 +", " ".repeat(pad * 2)));
        }
        files += jobs.len() as u64;
        let v: Vec<(String, String, String)> = jobs.par_iter().filter_map(|t| check_file(t).map(|(s, d)| (s, d, t.clone()))).collect();
        for (s, d, t) in v {
            note(format!("{} (long line)", s), d, t, &mut by_sig);
        }
    }

    // character level
    let chars = ["1", "0", " ", "\n", "\r", "\"", "A", "$", "=", ":", "é", "%"];
    let mlen = if thorough { 7 } else { 5 };
    let base = chars.len() as u64;
    let mut strings = 0u64;
    let mut nontrivial = 0u64;
    for len in 0..=mlen {
        let count = pow(base, len);
        strings += count;
        let v: Vec<(Option<(String, String)>, String, bool)> = (0..count)
            .into_par_iter()
            .map(|i| {
                let text: String = decode_seq(i, base, len).iter().map(|k| chars[*k]).collect();
                let nt = text.contains('\n') || text.chars().any(|c| c.is_ascii_digit());
                (check_file(&text), text, nt)
            })
            .collect();
        for (p, t, nt) in v {
            if nt {
                nontrivial += 1;
            }
            if let Some((s, d)) = p {
                note(s, d, t, &mut by_sig);
            }
        }
    }
    // a second alphabet: characters that are blank, numeric or invisible only to Unicode-aware
    // predicates (full-width digit, superscript, no-break and ideographic space, byte order
    // mark, form feed, a four-byte character) next to their ASCII counterparts
    let chars2 = ["1", " ", "\n", "A", "\"", "\u{ff12}", "\u{b2}", "\u{a0}", "\u{feff}", "\u{3000}", "\u{c}", "\u{1f60a}"];
    let mlen2 = if thorough { 6 } else { 4 };
    let base2 = chars2.len() as u64;
    for len in 1..=mlen2 {
        let count = pow(base2, len);
        strings += count;
        let v: Vec<(Option<(String, String)>, String)> = (0..count)
            .into_par_iter()
            .map(|i| {
                let text: String = decode_seq(i, base2, len).iter().map(|k| chars2[*k]).collect();
                (check_file(&text), text)
            })
            .collect();
        for (p, t) in v {
            nontrivial += 1;
            if let Some((s, d)) = p {
                note(s, d, t, &mut by_sig);
            }
        }
    }
    // every menu file of <= 2 lines behind each of those characters
    {
        let pre = ["\u{feff}", "\u{a0}", "\u{3000}", "\u{c}", "\u{ff12}", "\u{b2}"];
        let m = menu.len() as u64;
        let mut jobs: Vec<String> = vec![];
        for len in 1..=2 {
            for i in 0..pow(m, len) {
                let body = decode_seq(i, m, len).iter().map(|k| menu[*k]).collect::<Vec<_>>().join("\n");
                for p in pre {
                    jobs.push(format!("{}{}", p, body));
                }
            }
        }
        strings += jobs.len() as u64;
        let v: Vec<(Option<(String, String)>, String)> = jobs.into_par_iter().map(|t| (check_file(&t), t)).collect();
        for (p, t) in v {
            nontrivial += 1;
            if let Some((s, d)) = p {
                note(s, d, t, &mut by_sig);
            }
        }
    }
    // outcome classes for evidence: message counts over the line menu singles
    for l in &menu {
        let a = guarded(|| SourceFileAnalyzer::analyze(l.to_string()).messages().len());
        *outcomes.entry(format!("{:?}", a.map_err(|p| short_panic(&p)))).or_insert(0) += 1;
    }

    let (children, pv) = crate::c01::recursion_probes("analyzer");
    for v in pv {
        rep.add(v);
    }
    for (sig, (n, text, detail)) in by_sig {
        rep.violating_cases += n;
        rep.violations.push(Violation {
            signature: sig,
            detail: format!("{} (smallest of {} failing files: {:?})", detail, n, text),
            case: json!({"kind":"file","text":text}),
        });
    }
    rep.coverage = json!({
        "evaluations": files + strings + children,
        "distinct_nontrivial": files + nontrivial,
        "rule": "files = all sequences of <= n menu lines (distinct by construction) + all strings of <= m characters over a 12-character alphabet; non-trivial = menu files (each has a numbered or malformed line) and character strings containing a digit or a newline",
        "exhaustive": true,
        "menu_lines": menu.len(),
        "menu_max_lines": n1,
        "duplicate_number_menu_lines": dups.len(),
        "duplicate_number_max_lines": n2,
        "menu_files": files,
        "character_strings": strings,
        "character_max_len": mlen,
        "nesting_probe_children": children,
        "single_line_message_counts": outcomes,
        "samples": [menu[0..3].join("\n"), "10 PRINT \"é\" + 1\n10", "1\"é\n%"],
    });
    rep.assumptions = vec!["file contents are limited to the line menu and the character alphabet recorded above".into()];
    rep
}
