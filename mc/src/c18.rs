//! C18 — RND is a pure, in-range function of the seed.
//! Shape C: full sweep of all 2^33 generator states through the real `Rng::random`,
//! plus seeds beyond the modulus and argument dispatch through the interpreter.

use crate::common::*;
use crate::gen::*;
use crate::refmodel::{lcg_next, lcg_value, LCG_M};
use abasic_core::verif::{rng_latest, rng_step};
use rayon::prelude::*;
use serde_json::json;

fn check_state(s: u64) -> Option<String> {
    let r = guarded(|| rng_step(s));
    let (ns, v) = match r {
        Ok(x) => x,
        Err(p) => return Some(format!("panic:{}", short_panic(&p))),
    };
    let want = lcg_next(s % LCG_M);
    if ns != want {
        return Some(format!("next-state {} expected {}", ns, want));
    }
    if !(v >= 0.0 && v < 1.0) {
        return Some(format!("value {} out of [0,1)", v));
    }
    if v != lcg_value(want) {
        return Some(format!("value {} expected {}", v, lcg_value(want)));
    }
    None
}

pub fn run(thorough: bool) -> Report {
    let mut rep = Report::new("C18", "model_checking");

    // 1. Full sweep of the 2^33 states.
    let total: u64 = 1 << 33;
    let chunk: u64 = 1 << 22;
    let nchunks = total / chunk;
    let bad: Vec<(u64, String)> = (0..nchunks)
        .into_par_iter()
        .filter_map(|c| {
            let lo = c * chunk;
            // Fast path: straight-line arithmetic; any deviation falls to the slow path.
            let mut first: Option<(u64, String)> = None;
            let r = guarded(|| {
                for s in lo..lo + chunk {
                    let (ns, v) = rng_step(s);
                    let want = lcg_next(s);
                    if ns != want || !(v >= 0.0 && v < 1.0) || v != lcg_value(want) {
                        return Some(s);
                    }
                }
                None
            });
            match r {
                Ok(None) => {}
                Ok(Some(s)) => first = Some((s, check_state(s).unwrap_or_default())),
                Err(_) => {
                    for s in lo..lo + chunk {
                        if let Some(m) = check_state(s) {
                            first = Some((s, m));
                            break;
                        }
                    }
                }
            }
            first
        })
        .collect();
    let mut bad = bad;
    bad.sort();
    for (s, m) in bad.iter().take(5) {
        rep.add(Violation {
            signature: format!("sweep state={} {}", s, m),
            detail: format!("generator state {}: {}", s, m),
            case: json!({"kind":"rng_step","state":s.to_string()}),
        });
    }

    // 2. Seeds beyond the modulus.
    let mut seeds: Vec<u64> = vec![
        1 << 33,
        (1 << 33) + 1,
        1 << 43,
        1 << 44,
        1 << 63,
        u64::MAX - (1 << 33) + 1,
        u64::MAX - 1,
        u64::MAX,
    ];
    let edge = (u64::MAX - 1013904223) / 1664525;
    for d in [-1i64, 0, 1, 2] {
        seeds.push((edge as i64 + d) as u64);
    }
    for k in 33..64 {
        let p = 1u64 << k;
        seeds.push(p);
        seeds.push(p - 1);
        seeds.push(p + 1);
    }
    if thorough {
        for i in 0..(1u64 << 24) {
            seeds.push((i << 40) + ((i.wrapping_mul(2654435761)) % LCG_M));
        }
    }
    // seeds around the points where multiplier * seed (+ increment) crosses 2^64
    for q in [u64::MAX / 1664525, (u64::MAX - 1013904223) / 1664525, u64::MAX / 1664525 / 2] {
        for d in 0..=1500u64 {
            seeds.push(q.saturating_sub(d));
            seeds.push(q.saturating_add(d));
        }
    }
    seeds.sort();
    seeds.dedup();
    let nseeds = seeds.len() as u64;
    let bad2: Vec<(u64, String)> = seeds
        .par_iter()
        .filter_map(|&s| check_state(s).map(|m| (s, m)))
        .collect();
    let mut by_kind: std::collections::BTreeMap<String, (u64, u64)> = Default::default();
    for (s, m) in &bad2 {
        let k = m.split(' ').next().unwrap_or("").to_string();
        let e = by_kind.entry(k).or_insert((*s, 0));
        e.0 = e.0.min(*s);
        e.1 += 1;
    }
    for (k, (s, n)) in &by_kind {
        rep.add(Violation {
            signature: format!("big-seed {}", k),
            detail: format!(
                "seed {} (smallest of {} failing seeds >= 2^33 tried): {}",
                s,
                n,
                check_state(*s).unwrap_or_default()
            ),
            case: json!({"kind":"rng_step","state":s.to_string()}),
        });
    }

    // 3. Argument dispatch through the interpreter.
    // (the last one is the IEEE negative zero: a zero all the same)
    let args = ["1", "0.5", "1000000000", "0", "-1", "-0.5", "-0"];
    const NARGS: usize = 7;
    // (5) RND inside RND's argument, and RUN: neither may disturb the generator
    {
        for &seed in &[0u64, 1, 12345, (1 << 33) - 1, 1 << 44] {
            let r = guarded(|| {
                let mut s = Sess::new();
                s.it.randomize(seed);
                let mut m = seed % LCG_M;
                let mut problems = vec![];
                // RND(RND(1)): the inner call steps first, its (positive) value selects a step
                s.recs.clear();
                let _ = s.apply(&Ev::Line("PRINT RND(RND(1))".into()));
                m = lcg_next(m);
                if lcg_value(m) > 0.0 {
                    m = lcg_next(m);
                }
                if s.printed() != format!("{}\n", lcg_value(m)) {
                    problems.push(format!("PRINT RND(RND(1)) printed {:?}, the documented sequence gives {}", s.printed(), lcg_value(m)));
                }
                // a program run continues the sequence; a second RUN continues it further
                let _ = s.apply(&Ev::Line("10 PRINT RND(1);\" \";RND(0)".into()));
                for _ in 0..2 {
                    s.recs.clear();
                    let _ = s.apply(&Ev::LineToIdle("RUN".into()));
                    m = lcg_next(m);
                    let want = format!("{} {}\n", lcg_value(m), lcg_value(m));
                    if s.printed() != want {
                        problems.push(format!("RUN of 10 PRINT RND(1);\" \";RND(0) printed {:?}, the sequence continues with {:?}", s.printed(), want));
                    }
                }
                problems
            });
            let problems = match r {
                Ok(p) => p,
                Err(p) => vec![format!("panic {}", p)],
            };
            for p in problems.into_iter().take(1) {
                rep.add(Violation {
                    signature: format!("generator disturbed: {}", p.split(" printed").next().unwrap_or("")),
                    detail: format!("seed {}: {}", seed, p),
                    case: case_history(&[Ev::Randomize(seed), Ev::Line("PRINT RND(RND(1))".into()), Ev::Line("10 PRINT RND(1);\" \";RND(0)".into()), Ev::LineToIdle("RUN".into()), Ev::LineToIdle("RUN".into())], false, false),
                });
            }
        }
    }
    // (6) a line retyped with another function name at the same place: the call reaches the
    // function the line names now
    {
        let cases: [(&str, &str, bool); 4] = [("10 PRINT INT(7.5)", "10 PRINT RND(1)", true), ("10 PRINT RND(1)", "10 PRINT ABS(0-3)", false), ("10 PRINT ABS(2)", "10 PRINT RND(1)", true), ("10 X = RND(1)", "10 X = INT(2.5): PRINT X", false)];
        for (first, second, second_is_rnd) in cases {
            for via in ["GOTO 10", "RUN", "GOSUB 10"] {
                let mut s = Sess::new();
                let _ = s.apply(&Ev::Randomize(12345));
                let mut hist = vec![Ev::Randomize(12345)];
                for l in [first, "RUN", second] {
                    let e = if l == "RUN" { Ev::LineToIdle(l.into()) } else { Ev::Line(l.into()) };
                    let _ = s.apply(&e);
                    hist.push(e);
                }
                let mut m = 12345u64 % LCG_M;
                if first.contains("RND") {
                    m = lcg_next(m);
                }
                s.recs.clear();
                let e = Ev::LineToIdle(via.into());
                let _ = s.apply(&e);
                hist.push(e);
                let want = if second_is_rnd {
                    m = lcg_next(m);
                    format!("{}\n", lcg_value(m))
                } else if second.contains("ABS") {
                    "3\n".to_string()
                } else {
                    "2\n".to_string()
                };
                let after = s.it.verif_snapshot().rng_state;
                if s.printed() != want || after != m {
                    rep.add(Violation {
                        signature: format!("retyped line {} -> {} via {}", first, second, via),
                        detail: format!("{} printed {:?} (expected {:?}); generator state {} (expected {})", via, s.printed(), want, after, m),
                        case: case_history(&hist, false, false),
                    });
                }
            }
        }
    }
    // (7) arguments at the ends of the number line: the sign alone selects what RND does
    {
        // (argument text, sign: 1 = positive -> one step, -1 = negative -> refused, nothing moves)
        let extremes: [(&str, i32); 7] = [("10^400", 1), ("10^308*10", 1), ("10^(0-323)", 1), ("1.7976931348623157*10^308", 1), ("0-10^400", -1), ("0-10^(0-323)", -1), ("4294967296*4294967296", 1)];
        for seed in [1u64, 1 << 44] {
            for order in 0..extremes.len() {
                let mut s = Sess::new();
                let _ = s.apply(&Ev::Randomize(seed));
                let mut hist = vec![Ev::Randomize(seed)];
                let mut m = seed % LCG_M;
                for k in 0..extremes.len() {
                    let (arg, sign) = extremes[(order + k) % extremes.len()];
                    let line = format!("PRINT RND({})", arg);
                    s.recs.clear();
                    let r = s.apply(&Ev::Line(line.clone()));
                    hist.push(Ev::Line(line.clone()));
                    let after = s.it.verif_snapshot().rng_state;
                    let problem = if sign > 0 {
                        m = lcg_next(m);
                        if r != CallResult::Ok || s.printed() != format!("{}\n", lcg_value(m)) || after != m {
                            Some(format!("{:?}, printed {:?}, generator state {}; one step of the documented sequence gives {} and state {}", r, s.printed(), after, lcg_value(m), m))
                        } else {
                            None
                        }
                    } else if matches!(r, CallResult::Ok) || after != m {
                        Some(format!("{:?}, generator state {} (it was {}): a negative argument is refused and moves nothing", r, after, m))
                    } else {
                        None
                    };
                    if let Some(p) = problem {
                        rep.add(Violation {
                            signature: format!("extreme argument {}", arg),
                            detail: format!("seed {}: {}: {}", seed, line, p),
                            case: case_history(&hist, false, false),
                        });
                        break;
                    }
                }
            }
        }
    }
    // (7b) draws that succeeded stay drawn when the statement around them fails afterwards; a
    // user function whose body draws is entered at every call, also twice in one expression
    {
        // (lines to enter, line to run, number of draws it makes, expected print if any)
        let cases: Vec<(Vec<&str>, &str, u64)> = vec![
            (vec![], "X = RND(1) / 0", 1),
            (vec![], "X = RND(1) + RND(0-1)", 1),
            (vec![], "PRINT RND(1); NOSUCH$ + 1", 1),
            (vec![], "X = RND(1) + RND(1) + A(99)", 2),
            (vec!["10 DEF FNR(X) = RND(X)"], "RUN", 0),
            (vec![], "X = FNR(1) - FNR(1)", 2),
            (vec![], "X = FNR(1) + FNR(1) + FNR(1) * FNR(2)", 4),
            (vec![], "IF FNR(1) = FNR(1) THEN X = 1", 2),
        ];
        for seed in [3u64, 1 << 35] {
            let mut s = Sess::new();
            let _ = s.apply(&Ev::Randomize(seed));
            let mut hist = vec![Ev::Randomize(seed)];
            let mut m = seed % LCG_M;
            for (lines, run, draws) in &cases {
                for l in lines {
                    let e = Ev::Line(l.to_string());
                    let _ = s.apply(&e);
                    hist.push(e);
                }
                let e = Ev::LineToIdle(run.to_string());
                let _ = s.apply(&e);
                hist.push(e);
                for _ in 0..*draws {
                    m = lcg_next(m);
                }
                let after = s.it.verif_snapshot().rng_state;
                if after != m {
                    rep.add(Violation {
                        signature: format!("generator state after {:?} is not {} draws on", run, draws),
                        detail: format!("seed {}: after {:?} the generator state is {}, the documented sequence after the draws made so far gives {}", seed, run, after, m),
                        case: case_history(&hist, false, false),
                    });
                    break;
                }
            }
        }
    }
    // (7c) an INPUT whose subscript draws: each execution of the statement that gets as far as its
    // target draws once, and a reply refused for its type is refused before the target is looked at;
    // seeding with the seed already in use starts the sequence again like any other seeding
    {
        for seed in [0u64, 77] {
            let mut s = Sess::new();
            let _ = s.apply(&Ev::Randomize(seed));
            let mut hist = vec![Ev::Randomize(seed)];
            for l in ["10 INPUT A(RND(1)*9)", "20 PRINT RND(0)"] {
                let e = Ev::Line(l.to_string());
                let _ = s.apply(&e);
                hist.push(e);
            }
            s.recs.clear();
            let mut replies = vec!["x".to_string(), "y".to_string(), "5".to_string()].into_iter();
            let end = s.run_line("RUN", &mut replies, 100);
            hist.push(Ev::LineToIdle("RUN".into()));
            let m = lcg_next(seed % LCG_M);
            let after = s.it.verif_snapshot().rng_state;
            let want = format!("{}\n", lcg_value(m));
            if after != m || s.printed() != want {
                rep.add(Violation {
                    signature: "an INPUT whose subscript calls RND once draws more or less than once".into(),
                    detail: format!("seed {}: 10 INPUT A(RND(1)*9) answered x, y, 5 and 20 PRINT RND(0): run ended {:?}, printed {:?}, generator state {}; one draw gives {:?} and state {}", seed, end, s.printed(), after, want, m),
                    case: case_program(&["10 INPUT A(RND(1)*9)".to_string(), "20 PRINT RND(0)".to_string()], &["x".to_string(), "y".to_string(), "5".to_string()], seed),
                });
            }
            // the same seed given again
            let mut s = Sess::new();
            let mut hist = vec![];
            let mut firsts = vec![];
            for _ in 0..3 {
                let e = Ev::Randomize(seed);
                let _ = s.apply(&e);
                hist.push(e);
                s.recs.clear();
                let e = Ev::Line("PRINT RND(1)".into());
                let _ = s.apply(&e);
                hist.push(e);
                firsts.push(s.printed());
                let e = Ev::Line("X = RND(1) + RND(1)".into());
                let _ = s.apply(&e);
                hist.push(e);
            }
            if firsts.iter().any(|f| *f != want) {
                rep.add(Violation {
                    signature: "seeding with the seed already in use does not start the sequence again".into(),
                    detail: format!("seed {} given three times, each followed by PRINT RND(1) and two more draws: printed {:?}, the sequence from that seed starts with {:?}", seed, firsts, want),
                    case: case_history(&hist, false, false),
                });
            }
        }
    }
    // (8) seeding is seeding whatever the interpreter is doing: while a program awaits a reply,
    // between two statements of a running line, right after a break
    {
        for seed in [5u64, 1 << 40] {
            for (name, lines, steps) in [
                ("while awaiting input", vec!["10 INPUT A: PRINT RND(1)"], vec!["RUN", "cont", "seed", "reply"]),
                ("between two statements", vec!["10 X = 1: PRINT RND(1)"], vec!["RUN", "cont", "seed"]),
                ("between two draws", vec!["10 PRINT RND(1);: PRINT RND(1)"], vec!["RUN", "cont", "seed"]),
                ("at a STOP", vec!["10 STOP: PRINT RND(1)"], vec!["RUN", "cont", "seed", "CONT"]),
            ] {
                let mut s = Sess::new();
                let _ = s.apply(&Ev::Randomize(99));
                let mut hist = vec![Ev::Randomize(99)];
                for l in &lines {
                    let e = Ev::Line(l.to_string());
                    let _ = s.apply(&e);
                    hist.push(e);
                }
                for st in steps {
                    let e = match st {
                        "seed" => Ev::Randomize(seed),
                        "reply" => Ev::Input("1".into()),
                        "cont" => Ev::Cont,
                        other => Ev::Line(other.to_string()),
                    };
                    if matches!(e, Ev::Cont) && s.state() != abasic_core::InterpreterState::Running {
                        continue;
                    }
                    if matches!(e, Ev::Randomize(_)) {
                        s.recs.clear();
                    }
                    let _ = s.apply(&e);
                    hist.push(e);
                }
                let mut n = 0;
                while s.state() == abasic_core::InterpreterState::Running && n < 10 {
                    let _ = s.apply(&Ev::Cont);
                    hist.push(Ev::Cont);
                    n += 1;
                }
                let want = format!("{}\n", lcg_value(lcg_next(seed % LCG_M)));
                if s.printed() != want {
                    rep.add(Violation {
                        signature: format!("seeding {} is not honoured", name),
                        detail: format!("seed {} given {}: the next RND(1) printed {:?}, the documented sequence from that seed starts with {:?}", seed, name, s.printed(), want),
                        case: case_history(&hist, false, false),
                    });
                }
            }
        }
    }
    let disp_seeds: [u64; 5] = [0, 1, (1 << 33) - 1, 1 << 44, u64::MAX];
    let maxlen = 6;
    let mut seqs: Vec<Vec<usize>> = vec![];
    for len in 1..=maxlen {
        for i in 0..pow(6, len) {
            seqs.push(decode_seq(i, 6, len));
        }
    }
    for len in 1..=3 {
        for i in 0..pow(NARGS as u64, len) {
            let q = decode_seq(i, NARGS as u64, len);
            if q.contains(&(NARGS - 1)) {
                seqs.push(q);
            }
        }
    }
    // second family: rejected calls and re-seeding of a used interpreter mixed in (items 6..=10)
    for len in 1..=4 {
        for i in 0..pow(NARGS as u64 + 5, len) {
            let q = decode_seq(i, NARGS as u64 + 5, len);
            if q.iter().any(|k| *k >= NARGS) {
                seqs.push(q);
            }
        }
    }
    let malformed = ["PRINT RND(1", "X = RND(1, 2)", "PRINT RND(2 X)"];
    let reseeds: [u64; 2] = [0, 12345];
    let nseq = seqs.len() as u64 * disp_seeds.len() as u64;
    let dviol: Vec<Violation> = seqs
        .par_iter()
        .flat_map_iter(|seq| {
            let mut out = vec![];
            for (&seed, shadowed) in disp_seeds.iter().flat_map(|sd| [(sd, false), (sd, true)]) {
                if shadowed && seq.len() > 3 {
                    continue;
                }
                let mut s = Sess::new();
                let mut hist = vec![];
                if shadowed {
                    // a program has DEFined functions named like the builtins: calls still reach RND
                    for e in [Ev::Line("10 DEF RND(X)=5: DEF INT(X)=9".into()), Ev::LineToIdle("RUN".into())] {
                        let _ = s.apply(&e);
                        hist.push(e);
                    }
                }
                hist.push(Ev::Randomize(seed));
                if let CallResult::Panic(p) = s.apply(&Ev::Randomize(seed)) {
                    out.push(Violation {
                        signature: format!("dispatch randomize panic {}", short_panic(&p)),
                        detail: format!("randomize({}) panicked: {}", seed, p),
                        case: case_history(&hist, false, false),
                    });
                    continue;
                }
                let mut model = seed % LCG_M;
                let mut stepped = false;
                for &a in seq {
                    if a >= NARGS + 3 {
                        // the host seeds a used interpreter: the sequence restarts from that seed
                        let sd = reseeds[a - NARGS - 3];
                        hist.push(Ev::Randomize(sd));
                        let _ = s.apply(&Ev::Randomize(sd));
                        model = sd % LCG_M;
                        stepped = false;
                        continue;
                    }
                    if a >= NARGS {
                        // a call the parser rejects is not a call: the generator must not move
                        let line = malformed[a - NARGS].to_string();
                        hist.push(Ev::Line(line.clone()));
                        let before = guarded(|| s.it.verif_snapshot().rng_state).unwrap_or(0);
                        let r = s.apply(&Ev::Line(line.clone()));
                        let after = guarded(|| s.it.verif_snapshot().rng_state).unwrap_or(0);
                        let p = match r {
                            CallResult::Panic(p) => Some(format!("panic {}", short_panic(&p))),
                            CallResult::Ok => Some("malformed call was accepted".to_string()),
                            CallResult::Err(_, _) if after != before => Some("a rejected call advanced the generator".to_string()),
                            _ => None,
                        };
                        if let Some(p) = p {
                            out.push(Violation {
                                signature: format!("dispatch rejected call {}: {}", line, p),
                                detail: format!("seed {}: {:?}: {}", seed, line, p),
                                case: case_history(&hist, false, false),
                            });
                            break;
                        }
                        continue;
                    }
                    let line = format!("PRINT RND({})", args[a]);
                    hist.push(Ev::Line(line.clone()));
                    s.recs.clear();
                    let before = guarded(|| s.it.verif_snapshot().rng_state).unwrap_or(0);
                    let r = s.apply(&Ev::Line(line.clone()));
                    let after = guarded(|| s.it.verif_snapshot().rng_state).unwrap_or(0);
                    let x: f64 = args[a].parse().unwrap();
                    let problem: Option<String> = match (&r, x) {
                        (CallResult::Panic(p), _) => Some(format!("panic {}", short_panic(p))),
                        (CallResult::Err(_, _), x) if x < 0.0 => {
                            // (which error it is reported as is not the property's business)
                            if after % LCG_M != before % LCG_M {
                                Some("negative argument advanced the generator".into())
                            } else {
                                None
                            }
                        }
                        (CallResult::Ok, x) if x < 0.0 => {
                            Some("negative argument was not reported as an error".into())
                        }
                        (CallResult::Err(k, _), _) => Some(format!("unexpected error {}", k)),
                        (CallResult::Ok, x) if x == 0.0 => {
                            let v: f64 = s.printed().trim().parse().unwrap_or(f64::NAN);
                            if after != before {
                                Some("RND(0) changed the generator state".into())
                            } else if !(v >= 0.0 && v < 1.0) {
                                // whatever "the previous value" is before any positive call, every
                                // value of the sequence lies in [0, 1)
                                Some(format!("RND(0) returned {} which is outside [0,1)", s.printed().trim()))
                            } else if !stepped && {
                                // right after (re-)seeding: what a fresh interpreter given the same seed answers
                                let mut f = Sess::new();
                                let sd = hist.iter().rev().find_map(|e| if let Ev::Randomize(x) = e { Some(*x) } else { None }).unwrap_or(seed);
                                let _ = f.apply(&Ev::Randomize(sd));
                                let _ = f.apply(&Ev::Line(line.clone()));
                                f.printed() != s.printed()
                            } {
                                Some(format!("RND(0) right after seeding printed {:?}, a fresh interpreter given the same seed prints something else", s.printed()))
                            } else if stepped
                                && s.printed() != format!("{}\n", lcg_value(model))
                            {
                                Some(format!(
                                    "RND(0) printed {:?}, previous value was {}",
                                    s.printed(),
                                    lcg_value(model)
                                ))
                            } else {
                                None
                            }
                        }
                        (CallResult::Ok, _) => {
                            model = lcg_next(model);
                            stepped = true;
                            if s.printed() != format!("{}\n", lcg_value(model)) {
                                Some(format!(
                                    "printed {:?}, documented sequence gives {}",
                                    s.printed(),
                                    lcg_value(model)
                                ))
                            } else {
                                None
                            }
                        }
                    };
                    if let Some(p) = problem {
                        out.push(Violation {
                            signature: format!(
                                "dispatch seed={} arg={} {}",
                                if seed >= LCG_M { "big" } else { "small" },
                                args[a],
                                p.split(|c: char| c.is_ascii_digit()).next().unwrap_or("")
                            ),
                            detail: format!("seed {} history {:?}: {}", seed, hist, p),
                            case: case_history(&hist, false, false),
                        });
                        break;
                    }
                }
            }
            out.into_iter()
        })
        .collect();
    // keep the shortest per signature
    let mut seen = std::collections::HashSet::new();
    for v in dviol {
        rep.violating_cases += 1;
        if seen.insert(v.signature.clone()) {
            rep.violations.push(v);
        }
    }

    // 4. Same seed, two interpreters and the web adapter: same sequence.
    let mut cross = 0u64;
    for &seed in &disp_seeds {
        let r = guarded(|| {
            let mut a = Sess::new();
            a.it.randomize(seed);
            let mut w = abasic_web::JsInterpreter::new();
            w.randomize(seed);
            let mut same = true;
            for _ in 0..20 {
                a.recs.clear();
                let _ = a.apply(&Ev::Line("PRINT RND(1)".into()));
                w.start_evaluating("PRINT RND(1)".into());
                let wo: String = w
                    .take_latest_output()
                    .into_iter()
                    .map(|o| o.into_string())
                    .collect();
                let _ = w.take_latest_error();
                if wo != a.printed() {
                    same = false;
                }
            }
            same
        });
        cross += 1;
        match r {
            Ok(true) => {}
            Ok(false) => rep.add(Violation {
                signature: "front-ends disagree".into(),
                detail: format!("seed {}: core interpreter and web adapter printed different sequences", seed),
                case: json!({"kind":"rng_cross","seed":seed.to_string()}),
            }),
            Err(p) => rep.add(Violation {
                signature: format!("front-end panic {}", short_panic(&p)),
                detail: format!("seed {}: {}", seed, p),
                case: json!({"kind":"rng_cross","seed":seed.to_string()}),
            }),
        }
    }
    let _ = rng_latest;

    rep.coverage = json!({
        "states": total,
        "transitions": total + nseeds + nseq * 3,
        "traces_validated_against_impl": total + nseeds,
        "exhaustive": true,
        "states_swept": total,
        "seeds_beyond_modulus_checked": nseeds,
        "dispatch_sequences": nseq,
        "dispatch_max_len": maxlen,
        "cross_front_end_seeds": cross,
        "samples": [
            {"state": 0, "step": format!("{:?}", guarded(|| rng_step(0)).ok())},
            {"state": (1u64<<33)-1, "step": format!("{:?}", guarded(|| rng_step((1u64<<33)-1)).ok())},
            {"dispatch": ["randomize(2^44)", "PRINT RND(1)", "PRINT RND(0)", "PRINT RND(-1)"]},
        ],
        "rule": "every state s in [0,2^33) stepped through the real Rng::random and compared with (1664525*s+1013904223) mod 2^33 computed in u128, value s'/2^33 in [0,1)",
    });
    rep.assumptions = vec![
        "seeds >= 2^33 are decided on a boundary set plus (thorough) all 2^24 top-24-bit patterns; the step is assumed to depend on the seed only through a*seed+c mod 2^33 for untested high-bit patterns".into(),
        "RND(0) before any positive call is left undefined by the reference (no previous value exists)".into(),
    ];
    rep
}
