//! C15 — loading a file equals typing it in; CLI options apply in both modes.
//! Library level: every file of <= 4 well-formed menu lines, loaded through the analyzer vs
//! entered line by line. Process level: all 2^3 option combinations x {file, piped} over a
//! program set, on the `abasic` binary built from /repo.

use crate::common::*;
use crate::gen::*;
use abasic_core::SourceFileAnalyzer;
use rayon::prelude::*;
use serde_json::json;
use std::collections::{BTreeMap, HashSet};
use std::io::Write;
use std::process::{Command, Stdio};

fn lib_menu() -> Vec<&'static str> {
    // a line the static check rejects deep inside an expression (never executed), and a valid
    // line nested deep enough that nothing of the nesting budget may have been used up before
    let deep_bad: &'static str = Box::leak(format!("30 IF 0 THEN PRINT {}1 + \"A\"{}", "(".repeat(40), ")".repeat(40)).into_boxed_str());
    let deep_ok: &'static str = Box::leak(format!("40 PRINT {}7{}", "(".repeat(40), ")".repeat(40)).into_boxed_str());
    let deep_calls: &'static str = Box::leak(format!("42 PRINT {}7.5{}", "INT(".repeat(40), ")".repeat(40)).into_boxed_str());
    vec![
        deep_bad,
        deep_ok,
        deep_calls,
        "10 X = 1",
        "10 PRINT X",
        "10 PRINT \"é\" + 1",
        "10 REM é",
        "20 GOTO 10",
        "20 GOTO 99",
        "20 X$ = 1",
        "30 FOR I = 1 TO 2",
        "40 NEXT I",
        "45 PRINT FNA(2);",
        "20 ? \"q\";X",
        "50 DEF FNA(X) = X",
        "60 PRINT FNA(1)",
        "70 DATA 1, \"a\"",
        "80 READ A",
        "90 INPUT B",
        "100 IF X THEN 10 ELSE 20",
        "110 DIM A(3)",
        "10 X = 1\r",
        " 10 X=1",
        "18446744073709551615 END",
        "0 PRINT 0",
        "10 PRINT 1 +",
        "20 PRINT \"a\";: X = X + 1",
        "30 REM note  ",
        "20 :",
        "30 : : PRINT \"c\"",
        "40 DATA \"ab  ",
        "20 PRINT \"t\"\t ",
        "20 PRINT ((((1 + \"A\"))))",
        "30 IF 0 THEN PRINT (((((((((1 + \"A\")))))))))",
        // a carriage return inside a line is a blank, at its end it belongs to REM / DATA text
        "20 PRINT \"a\";:\r PRINT \"b\"",
        "30 REM r\r",
        "40 DATA x\r",
    ]
}

fn observe(mut s: Sess) -> Result<(Vec<String>, Vec<String>, abasic_core::verif::VerifState), String> {
    s.recs.clear();
    let _ = s.apply(&Ev::Line("LIST".into()));
    let list: Vec<String> = s.recs.iter().map(|r| format!("{:?}", r)).collect();
    s.recs.clear();
    s.it.randomize(3);
    let mut replies = vec!["4".to_string(), "x".to_string(), "5".to_string()].into_iter();
    let end = s.run_line("RUN", &mut replies, 200);
    if let RunEnd::Panic(p) = &end {
        return Err(p.clone());
    }
    let mut t: Vec<String> = s.recs.iter().map(|r| format!("{:?}", r)).collect();
    t.push(format!("{:?}", end));
    let snap = s.it.verif_snapshot();
    // state the snapshot does not render (the nesting budget) shows in a deeply nested line
    if s.state() == abasic_core::InterpreterState::Idle {
        s.recs.clear();
        let deep = format!("PRINT {}1{}", "(".repeat(60), ")".repeat(60));
        let mut none = std::iter::empty();
        let e = s.run_line(&deep, &mut none, 10);
        t.push(format!("deep probe: {:?} {:?}", e, s.printed()));
    }
    Ok((list, t, snap))
}

fn check_file(text: &str) -> Option<(String, String)> {
    let t2 = text.to_string();
    let loaded = guarded(move || SourceFileAnalyzer::analyze(t2).into_interpreter());
    let loaded = match loaded {
        Ok(i) => i,
        Err(p) => return Some((format!("panic while loading {}", short_panic(&p)), p)),
    };
    let a = match observe(Sess::from_interpreter(loaded)) {
        Ok(x) => x,
        Err(p) => return Some((format!("panic {}", short_panic(&p)), p)),
    };
    let mut typed = Sess::new();
    for l in text.split('\n') {
        if typed.apply(&Ev::Line(l.to_string())) != CallResult::Ok {
            return Some(("menu line rejected at the prompt".into(), l.to_string()));
        }
    }
    let b = match observe(typed) {
        Ok(x) => x,
        Err(p) => return Some((format!("panic {}", short_panic(&p)), p)),
    };
    if a.0 != b.0 {
        return Some(("LIST differs between loaded and typed program".into(), format!("loaded {:?}; typed {:?}", a.0, b.0)));
    }
    if a.1 != b.1 {
        return Some(("RUN differs between loaded and typed program".into(), format!("loaded {:?}; typed {:?}", a.1, b.1)));
    }
    if a.2 != b.2 {
        return Some(("final state differs between loaded and typed program".into(), format!("loaded {:?}; typed {:?}", a.2, b.2)));
    }
    None
}

// ---------------------------------------------------------------------------------------

struct CliProg {
    name: &'static str,
    text: &'static str,
    replies: &'static str,
    analysis_error: bool,
}

fn cli_programs() -> Vec<CliProg> {
    vec![
        CliProg { name: "undeclared reads", text: "10 PRINT X\n20 PRINT A(1);B$\n30 Y = Z + 1: PRINT Y\n", replies: "", analysis_error: false },
        CliProg { name: "arrays and loops", text: "10 DIM A(3)\n20 FOR I = 0 TO 3: A(I) = I * I: NEXT I\n30 FOR I = 0 TO 3: PRINT A(I);\" \";: NEXT I\n40 PRINT\n", replies: "", analysis_error: false },
        CliProg { name: "runtime error", text: "10 PRINT \"before\"\n20 X = 0\n30 PRINT 1 / X\n40 PRINT \"after\"\n", replies: "", analysis_error: false },
        CliProg { name: "analysis error", text: "10 PRINT \"a\"\n20 GOTO 99\n", replies: "", analysis_error: true },
        CliProg { name: "INPUT from stdin", text: "10 INPUT B\n20 PRINT B * 2\n30 INPUT C$: PRINT C$;Q\n", replies: "21\nhello\n", analysis_error: false },
        CliProg { name: "GOSUB and DATA", text: "10 FOR I = 1 TO 3: READ D: GOSUB 100: NEXT I\n20 END\n100 PRINT D;U;\n110 RETURN\n200 DATA 7, 8, 9\n", replies: "", analysis_error: false },
        CliProg { name: "IF ELSE lines", text: "10 X = 1\n20 IF X THEN PRINT \"t\" ELSE PRINT \"f\"\n30 IF W THEN PRINT \"t\" ELSE PRINT \"f\": PRINT \"g\"\n", replies: "", analysis_error: false },
        CliProg { name: "DEF FN", text: "10 DEF FNA(X) = X * 2 + K\n20 PRINT FNA(3)\n30 PRINT FNA(FNA(1))\n", replies: "", analysis_error: false },
        CliProg { name: "out of order and redefined", text: "30 PRINT \"c\"\n10 PRINT \"a\"\n20 PRINT \"x\"\n20 PRINT \"b\";V\n", replies: "", analysis_error: false },
        CliProg { name: "CRLF endings", text: "10 PRINT \"r\";R\r\n20 PRINT \"s\"\r\n", replies: "", analysis_error: false },
        CliProg { name: "leading blanks and extreme numbers", text: "  5 PRINT \"five\";F\n0 PRINT \"zero\"\n18446744073709551615 PRINT \"max\"\n", replies: "", analysis_error: false },
        CliProg { name: "output ends without a newline", text: "10 X = 3\n20 PRINT \"abc\";X;\n", replies: "", analysis_error: false },
        CliProg { name: "last statements print nothing", text: "10 PRINT \"a\"\n20 Y = 1\n30 Y = Y + W\n", replies: "", analysis_error: false },
        CliProg { name: "first statement fails", text: "10 PRINT X / 0\n20 PRINT \"no\"\n", replies: "", analysis_error: false },
        CliProg { name: "colon-only line as a jump target", text: "10 GOTO 30\n20 PRINT \"skipped\"\n30 :\n40 PRINT \"end\";K\n", replies: "", analysis_error: false },
        CliProg { name: "INPUT after an unfinished output line", text: "10 PRINT \"NAME\";\n20 INPUT N$\n30 PRINT \"HI \";N$;\n40 INPUT M: PRINT M + G\n", replies: "BOB\nx\n7\n", analysis_error: false },
        CliProg { name: "INPUT in a loop with surplus items", text: "10 FOR I = 1 TO 2: PRINT I;: INPUT V: PRINT V,: NEXT I\n20 PRINT \"done\"\n", replies: "1,2\n3\n", analysis_error: false },
        CliProg { name: "runtime error with replies left over", text: "10 INPUT A\n20 PRINT 1 / (A - 5)\n30 INPUT B\n", replies: "5\nPRINT 99\n10 PRINT 77\nRUN\n", analysis_error: false },
        CliProg { name: "tabs inside literal text", text: "10 PRINT \"NAME\tQTY\";T\n20 READ A$, B$: PRINT A$;\"|\";B$\n30 REM a\tb\n40 DATA \"x\ty\", p\tq\n", replies: "", analysis_error: false },
        CliProg { name: "comparison chains and nested calls", text: "10 A$ = \"NO\": B$ = \"NO\"\n20 PRINT A$ = B$ = 1; \"X\" < \"Y\" = 1 < 2\n30 IF A$ = \"NO\" = 0 THEN PRINT \"no\" ELSE PRINT \"yes\"\n40 PRINT INT(INT(INT(INT(INT(INT(INT(INT(INT(INT(INT(INT(INT(INT(INT(INT(INT(INT(INT(INT(INT(INT(INT(INT(INT(INT(INT(INT(INT(INT(INT(INT(INT(INT(INT(INT(INT(INT(INT(INT(7.5))))))))))))))))))))))))))))))))))))))));Z\n", replies: "", analysis_error: false },
        CliProg { name: "warnings while an output line is unfinished", text: "10 PRINT \"TOTAL=\";\n20 PRINT X\n30 PRINT \"A\";: PRINT B(1);: PRINT \"z\"\n", replies: "", analysis_error: false },
        CliProg { name: "long unbroken output", text: "10 FOR I = 1 TO 120: PRINT \"xyz\";: NEXT I\n20 PRINT L\n", replies: "", analysis_error: false },
    ]
}

struct ProcOut {
    stdout: String,
    stderr: String,
    code: Option<i32>,
}

fn run_cli(bin: &str, args: &[&str], stdin_text: &str, home: &str) -> Result<ProcOut, String> {
    let mut child = Command::new(bin)
        .args(args)
        .env("RUST_BACKTRACE", "0")
        .env("NO_COLOR", "1")
        .env("HOME", home)
        .env("TERM", "dumb")
        .stdin(Stdio::piped())
        .stdout(Stdio::piped())
        .stderr(Stdio::piped())
        .spawn()
        .map_err(|e| format!("cannot start {}: {}", bin, e))?;
    {
        let mut si = child.stdin.take().unwrap();
        let _ = si.write_all(stdin_text.as_bytes());
    }
    let out = child.wait_with_output().map_err(|e| e.to_string())?;
    Ok(ProcOut {
        stdout: String::from_utf8_lossy(&out.stdout).to_string(),
        stderr: String::from_utf8_lossy(&out.stderr).to_string(),
        code: out.status.code(),
    })
}

/// Removes what the interactive front end itself writes to stdout: the banner, the `] `
/// prompt rustyline echoes for every line it reads from a pipe, and the newline it emits
/// after the last prompt at end of input. (No test program prints the text `] `.)
fn strip_banner(s: &str) -> String {
    let s = s.strip_suffix("] \n").unwrap_or(s);
    let s = s.replace("] ", "");
    s.lines()
        .filter(|l| !l.starts_with("Welcome to Atul's BASIC Interpreter") && *l != "Press CTRL-C to exit.")
        .map(|l| format!("{}\n", l))
        .collect()
}

fn is_analysis_chatter(l: &str) -> bool {
    l.starts_with("Warning on line ") || l.starts_with("Errors were encountered when analyzing") || l.starts_with("Please fix the above errors")
}

fn runtime_stderr(s: &str) -> Vec<String> {
    s.lines().filter(|l| !is_analysis_chatter(l)).map(|l| l.to_string()).collect()
}

pub fn run(thorough: bool) -> Report {
    let mut rep = Report::new("C15", "exploration");
    // ---- library level
    let menu = lib_menu();
    let base = menu.len() as u64;
    let n = if thorough { 4 } else { 3 };
    let mut files = 0u64;
    let mut by_sig: BTreeMap<String, (u64, String, String)> = BTreeMap::new();
    for len in 1..=n {
        let count = pow(base, len);
        files += count;
        let v: Vec<(String, String, String)> = (0..count)
            .into_par_iter()
            .filter_map(|i| {
                let text = decode_seq(i, base, len).iter().map(|k| menu[*k]).collect::<Vec<_>>().join("\n");
                check_file(&text).map(|(s, d)| (s, d, text))
            })
            .collect();
        for (s, d, t) in v {
            let e = by_sig.entry(s).or_insert((0, t.clone(), d.clone()));
            e.0 += 1;
            if t.len() < e.1.len() {
                e.1 = t;
                e.2 = d;
            }
        }
    }
    for (sig, (cnt, text, detail)) in by_sig {
        rep.violating_cases += cnt;
        rep.violations.push(Violation {
            signature: sig,
            detail: format!("{} (smallest of {} failing files: {:?})", detail, cnt, text),
            case: json!({"kind":"file","text":text}),
        });
    }

    // ---- process level
    let bin_dir = std::env::var("VERIF_REPO_BIN").unwrap_or_else(|_| "/verif/target/repo/release".into());
    let bin = format!("{}/abasic", bin_dir);
    if !std::path::Path::new(&bin).exists() {
        machinery(&format!("{} not built", bin));
    }
    let scratch = format!("{}/target/c15-scratch-{}", crate::VERIF_DIR, std::process::id());
    let _ = std::fs::create_dir_all(&scratch);
    let progs = cli_programs();
    let mut configs = 0u64;
    let mut launches = 0u64;
    let mut seen = HashSet::new();
    let mut nontrivial = 0u64;
    for (pi, p) in progs.iter().enumerate() {
        let path = format!("{}/p{}.bas", scratch, pi);
        std::fs::write(&path, p.text).unwrap();
        for mask in 0..8u32 {
            let w = mask & 1 != 0;
            let t = mask & 2 != 0;
            let k = mask & 4 != 0;
            let mut opts: Vec<&str> = vec![];
            if w {
                opts.push("--warnings");
            }
            if t {
                opts.push("--tracing");
            }
            if k {
                opts.push("--skip-check");
            }
            configs += 2;
            let mut fargs = opts.clone();
            fargs.push(&path);
            let piped_input = format!("{}RUN\n{}", p.text, p.replies);
            let mut outs = vec![];
            let mut failed = false;
            for _rep in 0..2 {
                launches += 2;
                let f = run_cli(&bin, &fargs, p.replies, &scratch);
                let i = run_cli(&bin, &opts, &piped_input, &scratch);
                match (f, i) {
                    (Ok(f), Ok(i)) => outs.push((f, i)),
                    (Err(e), _) | (_, Err(e)) => {
                        machinery(&e);
                    }
                }
            }
            let case = json!({"kind":"cli","program":p.text,"options":opts,"stdin_replies":p.replies,"file_mode":format!("abasic {} FILE", opts.join(" ")),"piped_mode":format!("(cat FILE; echo RUN; replies) | abasic {}", opts.join(" "))});
            let mut report = |sig: String, detail: String, rep: &mut Report, seen: &mut HashSet<String>| {
                rep.violating_cases += 1;
                if seen.insert(sig.clone()) {
                    rep.violations.push(Violation { signature: sig, detail, case: case.clone() });
                }
            };
            let (f0, i0) = &outs[0];
            let (f1, i1) = &outs[1];
            // Static-analysis chatter order follows hash-map iteration order; compare it sorted.
            let chatter = |s: &str| {
                let mut v: Vec<String> = s.lines().filter(|l| is_analysis_chatter(l)).map(|l| l.to_string()).collect();
                v.sort();
                v
            };
            if f0.stdout != f1.stdout
                || runtime_stderr(&f0.stderr) != runtime_stderr(&f1.stderr)
                || chatter(&f0.stderr) != chatter(&f1.stderr)
                || i0.stdout != i1.stdout
                || i0.stderr != i1.stderr
            {
                machinery(&format!("CLI run of {:?} is not deterministic", p.name));
            }
            if f0.code.is_none() || i0.code.is_none() {
                report(format!("abasic was killed by a signal [{}]", p.name), format!("file mode {:?}, piped {:?}", f0.code, i0.code), &mut rep, &mut seen);
                failed = true;
            }
            if failed {
                continue;
            }
            let refused = p.analysis_error && !k;
            if refused {
                // file mode must refuse to run and say why
                if f0.code != Some(1) || !f0.stdout.trim().is_empty() || !f0.stderr.contains("Errors were encountered") {
                    report(format!("file with an analysis error was not refused [{}]", p.name), format!("exit {:?} stdout {:?} stderr {:?}", f0.code, f0.stdout, f0.stderr), &mut rep, &mut seen);
                }
                continue;
            }
            nontrivial += 1;
            let fs = strip_banner(&f0.stdout);
            let is = strip_banner(&i0.stdout);
            if fs != is {
                report(
                    format!("stdout differs between file and piped mode [{} {:?}]", p.name, opts),
                    format!("file mode stdout {:?}; piped stdout {:?}", fs, is),
                    &mut rep,
                    &mut seen,
                );
                continue;
            }
            let fe = runtime_stderr(&f0.stderr);
            let ie = runtime_stderr(&i0.stderr);
            if fe != ie {
                report(
                    format!("runtime stderr differs between file and piped mode [{} {:?}]", p.name, opts),
                    format!("file mode stderr {:?}; piped stderr {:?}", fe, ie),
                    &mut rep,
                    &mut seen,
                );
                continue;
            }
            if (f0.code == Some(0)) != (i0.code == Some(0)) {
                report(format!("exit status differs [{} {:?}]", p.name, opts), format!("file {:?} piped {:?}", f0.code, i0.code), &mut rep, &mut seen);
                continue;
            }
            // options must actually take effect (checked against the library)
            let has_trace = is.contains("#10 ") || is.contains("#5 ") || is.contains("#0 ") || is.contains("#30 ");
            if t != has_trace {
                report(format!("--tracing {} but trace records {} [{}]", t, has_trace, p.name), format!("stdout {:?}", is), &mut rep, &mut seen);
            }
            let has_warn = ie.iter().any(|l| l.starts_with("WARNING"));
            let expects_warn = {
                let mut s = Sess::new();
                s.it.enable_warnings = true;
                for l in p.text.split('\n') {
                    if !l.trim().is_empty() {
                        let _ = s.apply(&Ev::Line(l.trim_end_matches('\r').to_string()));
                    }
                }
                s.recs.clear();
                let mut r = p.replies.lines().map(|l| l.to_string());
                let _ = s.run_line("RUN", &mut r, 5000);
                s.recs.iter().any(|r| matches!(r, Rec::Warning(_, _)))
            };
            if has_warn != (w && expects_warn) {
                report(format!("--warnings {} but warning lines {} [{}]", w, has_warn, p.name), format!("stderr {:?}", ie), &mut rep, &mut seen);
            }
        }
    }
    let _ = std::fs::remove_dir_all(&scratch);
    rep.coverage = json!({
        "evaluations": files + launches,
        "distinct_nontrivial": files + nontrivial,
        "rule": "library level: every file of <= n well-formed menu lines (distinct by construction); process level: every (program, option set) pair compared between file mode and piped mode (non-trivial = the program was run in both modes)",
        "exhaustive": true,
        "library_files": files,
        "library_menu_lines": menu.len(),
        "library_max_lines": n,
        "cli_programs": progs.len(),
        "cli_configurations": configs,
        "process_launches": launches,
        "samples": [{"file": progs[0].text, "options": ["--warnings", "--tracing"]}],
    });
    rep.assumptions = vec!["CLI runs use NO_COLOR=1, piped stdio, RUST_BACKTRACE=0 and a scratch HOME; programs do not call RND (the CLI seeds from the clock)".into()];
    rep
}
