//! Engine B helpers: simplest-first enumerators and the generic counterexample replayer.

use crate::common::*;
use crate::refmodel::*;
use serde_json::{json, Value as J};

/// All sequences over `0..base` of length `len`, decoded from an index (mixed radix,
/// most-significant first) so that work can be split by index range.
pub fn decode_seq(mut idx: u64, base: u64, len: usize) -> Vec<usize> {
    let mut v = vec![0usize; len];
    for i in (0..len).rev() {
        v[i] = (idx % base) as usize;
        idx /= base;
    }
    v
}

pub fn pow(base: u64, exp: usize) -> u64 {
    let mut r = 1u64;
    for _ in 0..exp {
        r = r.saturating_mul(base);
    }
    r
}

/// All expression trees with exactly `k` binary operators over the given leaves;
/// `wrap(e)` yields the variants of a node (the node itself first).
pub fn trees(
    k: usize,
    leaves: &[Expr],
    ops: &[Bin],
    wrap_leaf: &dyn Fn(&Expr) -> Vec<Expr>,
    wrap_inner: &dyn Fn(&Expr) -> Vec<Expr>,
) -> Vec<Expr> {
    // memo[j] = all trees with j binary operators
    let mut memo: Vec<Vec<Expr>> = vec![];
    let mut l0 = vec![];
    for l in leaves {
        l0.extend(wrap_leaf(l));
    }
    memo.push(l0);
    for j in 1..=k {
        let mut out = vec![];
        for a in 0..j {
            let b = j - 1 - a;
            for op in ops {
                for l in &memo[a] {
                    for r in &memo[b] {
                        let e = bin(*op, l.clone(), r.clone());
                        out.extend(wrap_inner(&e));
                    }
                }
            }
        }
        memo.push(out);
    }
    memo.pop().unwrap()
}

// ---------------------------------------------------------------------------------------

pub fn case_history(events: &[Ev], warnings: bool, tracing: bool) -> J {
    json!({"kind":"history","events":hist_json(events),"warnings":warnings,"tracing":tracing})
}

pub fn case_program(lines: &[String], replies: &[String], seed: u64) -> J {
    json!({"kind":"program","lines":lines,"replies":replies,"seed":seed.to_string()})
}

pub fn replay_case(case: &J) -> i32 {
    let kind = case["kind"].as_str().unwrap_or("");
    match kind {
        "history" => {
            let mut s = Sess::new();
            s.it.enable_warnings = case["warnings"].as_bool().unwrap_or(false);
            s.it.enable_tracing = case["tracing"].as_bool().unwrap_or(false);
            let evs: Vec<Ev> = case["events"]
                .as_array()
                .map(|a| a.iter().filter_map(Ev::from_json).collect())
                .unwrap_or_default();
            for e in &evs {
                if !enabled(s.state(), e) {
                    println!("  (event {:?} is not enabled in state {:?}; stopping)", e, s.state());
                    break;
                }
                let r = s.apply(e);
                println!("call {:?}", e);
                for rec in s.recs.drain(..) {
                    println!("    {:?}", rec);
                }
                println!("  -> {:?}, state {:?}", r, s.state());
                if matches!(r, CallResult::Panic(_)) {
                    break;
                }
            }
            0
        }
        "program" => {
            let lines: Vec<String> = case["lines"]
                .as_array()
                .map(|a| a.iter().filter_map(|x| x.as_str().map(|s| s.to_string())).collect())
                .unwrap_or_default();
            let replies: Vec<String> = case["replies"]
                .as_array()
                .map(|a| a.iter().filter_map(|x| x.as_str().map(|s| s.to_string())).collect())
                .unwrap_or_default();
            let seed: u64 = case["seed"].as_str().and_then(|s| s.parse().ok()).unwrap_or(0);
            let mut s = Sess::new();
            s.it.enable_warnings = case["warnings"].as_bool().unwrap_or(false);
            s.it.enable_tracing = case["tracing"].as_bool().unwrap_or(false);
            for l in &lines {
                println!("{}", l);
                let r = s.apply(&Ev::Line(l.clone()));
                if r != CallResult::Ok {
                    println!("  -> {:?}", r);
                }
            }
            s.recs.clear();
            s.it.randomize(seed);
            let end = s.run_line("RUN", &mut replies.into_iter(), 100000);
            for rec in &s.recs {
                println!("    {:?}", rec);
            }
            println!("  -> {:?}", end);
            0
        }
        "line" => {
            let text = case["text"].as_str().unwrap_or("");
            println!("line: {:?}", text);
            match guarded(|| abasic_core::verif::tokenize(text)) {
                Ok(Ok(toks)) => {
                    for (t, r) in toks {
                        println!("    {:?} @ {:?} = {:?}", t, r, text.get(r.clone()));
                    }
                }
                Ok(Err(e)) => println!("    error {:?}", e),
                Err(p) => println!("    PANIC {}", p),
            }
            0
        }
        "file" => {
            let text = case["text"].as_str().unwrap_or("").to_string();
            println!("file: {:?}", text);
            match guarded(|| {
                let a = abasic_core::SourceFileAnalyzer::analyze(text.clone());
                for m in a.messages() {
                    println!("    {:?} -> {:?}", m, a.source_file_map().map_to_source(m));
                }
                for (i, l) in a.token_types().iter().enumerate() {
                    println!("    line {} tokens {:?}", i, l);
                }
            }) {
                Ok(()) => {}
                Err(p) => println!("    PANIC {}", p),
            }
            0
        }
        _ => {
            println!("case: {}", serde_json::to_string_pretty(case).unwrap());
            println!("(no generic replayer for this kind; the case above lists the exact inputs)");
            0
        }
    }
}
