//! C11 — editing the program invalidates every runtime reference into it.
//! Every turn boundary of each suspension program x every edit x every probe (pairs of
//! probes in the thorough tier), on the real interpreter.

use crate::common::*;
use crate::gen::*;
use abasic_core::InterpreterState;
use rayon::prelude::*;
use serde_json::json;
use std::collections::BTreeMap;

struct Prog {
    name: &'static str,
    lines: Vec<&'static str>,
    data_line: Option<u64>,
    def_line: Option<u64>,
    replies: Vec<&'static str>,
}

fn programs() -> Vec<Prog> {
    vec![
        Prog {
            name: "R1",
            lines: vec![
                "10 DEF FNA(Q)=Q+40",
                "20 X=3: S$=\"s\": A(1)=9",
                "30 FOR I=1 TO 2",
                "40 READ D: GOSUB 100",
                "50 NEXT I",
                "60 PRINT FNA(1)",
                "70 END",
                "100 PRINT D;",
                "110 RETURN",
                "200 DATA 11,22,33",
            ],
            data_line: Some(200),
            def_line: Some(10),
            replies: vec![],
        },
        Prog {
            name: "R2",
            lines: vec!["10 X=3: GOSUB 100: PRINT \"back\"", "20 END", "100 GOSUB 200", "110 RETURN", "200 S$=\"s\": A(1)=9", "210 RETURN"],
            data_line: None,
            def_line: None,
            replies: vec![],
        },
        Prog {
            name: "R3",
            lines: vec!["10 DEF FNA(Q)=Q+40", "20 X=3: S$=\"s\": A(1)=9: DIM Z(20)", "30 STOP", "40 PRINT FNA(1)", "50 PRINT 1/0"],
            data_line: None,
            def_line: Some(10),
            replies: vec![],
        },
        Prog {
            name: "R4",
            lines: vec!["10 X=3: FOR I=1 TO 2: GOSUB 100", "20 PRINT W: NEXT I: END", "100 INPUT W", "110 RETURN"],
            data_line: None,
            def_line: None,
            replies: vec!["5", "6"],
        },
        // a one-line program: deleting its line leaves no program at all
        Prog {
            name: "R5",
            lines: vec!["10 DIM Z(20): X=3: S$=\"s\": A(1)=9: FOR I=1 TO 2: STOP: PRINT X;: NEXT I"],
            data_line: None,
            def_line: None,
            replies: vec![],
        },
        // the same on line 0 (a line number like any other)
        Prog {
            name: "R6",
            lines: vec!["0 DIM Z(20): X=3: S$=\"s\": A(1)=9: GOSUB 5: END", "5 FOR I=1 TO 2: READ D: STOP: PRINT X;D;: NEXT I: RETURN", "7 DATA 11,22"],
            data_line: Some(7),
            def_line: None,
            replies: vec![],
        },
    ]
}

#[derive(Clone, Debug)]
enum Edit {
    AddNew,
    ReplaceFirst,
    DeleteBreakpointLine,
    DeleteDataLine,
    DeleteDefLine,
    Rejected,
    RejectedOnBreakpointLine,
    /// a new line that brings DATA (the only DATA, for the programs that have none)
    AddData,
    /// the first line typed again as it stands (an accepted edit like any other)
    RetypeFirst,
}

const PROBES: [&str; 10] = ["CONT", "RETURN", "NEXT I", "READ Z: PRINT Z", "PRINT FNA(1)", "GOTO 10", "PRINT X;S$;A(1)", "LIST", "NEXT K", "Z(15)=7: PRINT Z(15);Z(20)"];

/// Typed at the suspension point before the edit: a loop opened in immediate mode is a
/// runtime reference like any other.
const PRE_EDIT: &str = "FOR K=1 TO 3";
/// Also typed before the edit: an immediate READ (opens the DATA cursor from immediate mode).
const PRE_EDIT_READ: &str = "READ Z9";
/// Pseudo boundary: the program has been entered but nothing has been run since.
const NEVER_RUN: usize = usize::MAX;

/// Runs the program up to turn boundary `k` and suspends there. Returns None if the run has
/// fewer boundaries. The history (host calls) is returned for replay files.
fn suspend_at(p: &Prog, k: usize) -> Option<(Sess, Vec<Ev>, Option<u64>)> {
    suspend_at_with(p, k, 3)
}

/// `pre`: bit 0 = type FOR K=1 TO 3 before the edit, bit 1 = type READ Z9 before the edit,
/// bit 2 = the program is not typed in but loaded as a source file (the CLI's way in).
fn suspend_at_with(p: &Prog, k: usize, pre: u8) -> Option<(Sess, Vec<Ev>, Option<u64>)> {
    let mut s = Sess::new();
    let mut hist = vec![];
    if pre & 4 != 0 {
        let text = p.lines.join("\n");
        s = Sess::from_interpreter(guarded(move || abasic_core::SourceFileAnalyzer::analyze(text).into_interpreter()).ok()?);
    }
    for l in &p.lines {
        let e = Ev::Line(l.to_string());
        if pre & 4 == 0 {
            let _ = s.apply(&e);
        }
        hist.push(e);
    }
    let mut replies = p.replies.iter();
    let mut turns = 0usize;
    if k != NEVER_RUN {
        let e = Ev::Line("RUN".into());
        let _ = s.apply(&e);
        hist.push(e);
    }
    loop {
        if k == NEVER_RUN {
            break;
        }
        if turns == k {
            break;
        }
        match s.state() {
            InterpreterState::Running => {
                let _ = s.apply(&Ev::Cont);
                hist.push(Ev::Cont);
            }
            InterpreterState::AwaitingInput => {
                let r = replies.next()?;
                let e = Ev::Input(r.to_string());
                let _ = s.apply(&e);
                hist.push(e);
            }
            InterpreterState::Idle => {
                // stopped (STOP), failed or ended: one more boundary, then no further ones
                if turns + 1 == k {
                    turns += 1;
                    continue;
                }
                return None;
            }
            _ => return None,
        }
        turns += 1;
    }
    if s.state() != InterpreterState::Idle {
        let _ = s.apply(&Ev::Break);
        hist.push(Ev::Break);
    }
    for (bit, line) in [(1u8, PRE_EDIT), (2u8, PRE_EDIT_READ)] {
        if pre & bit == 0 {
            continue;
        }
        let e = Ev::Line(line.to_string());
        let _ = s.apply(&e);
        hist.push(e);
    }
    let bp = s.it.verif_snapshot().breakpoint.map(|b| b.0);
    s.recs.clear();
    Some((s, hist, bp))
}

fn edit_line(p: &Prog, e: &Edit, bp: Option<u64>) -> Option<String> {
    Some(match e {
        Edit::AddNew => "5 REM n".to_string(),
        Edit::ReplaceFirst => "10 PRINT \"new\": END".to_string(),
        Edit::DeleteBreakpointLine => format!("{}", bp?),
        Edit::DeleteDataLine => format!("{}", p.data_line?),
        Edit::DeleteDefLine => format!("{}", p.def_line?),
        Edit::AddData => "6 PRINT \"n\";: DATA 77".to_string(),
        Edit::RetypeFirst => format!(" {}", p.lines[0]),
        Edit::Rejected => "35 PRINT \"".to_string(),
        Edit::RejectedOnBreakpointLine => format!("{} PRINT \"", bp?),
    })
}

fn run_probe(s: &mut Sess, probe: &str) -> Vec<String> {
    s.recs.clear();
    let mut none = std::iter::empty();
    let end = s.run_line(probe, &mut none, 50);
    let mut t: Vec<String> = s.recs.iter().map(|r| format!("{:?}", r)).collect();
    t.push(format!("{:?}", end));
    t
}

pub fn run(thorough: bool) -> Report {
    let mut rep = Report::new("C11", "model_checking");
    let edits = [
        Edit::AddNew,
        Edit::ReplaceFirst,
        Edit::DeleteBreakpointLine,
        Edit::DeleteDataLine,
        Edit::DeleteDefLine,
        Edit::Rejected,
        Edit::RejectedOnBreakpointLine,
        Edit::AddData,
        Edit::RetypeFirst,
    ];
    let mut jobs = vec![];
    let progs = programs();
    let mut points = 0u64;
    for (pi, p) in progs.iter().enumerate() {
        points += 1;
        for (ei, _) in edits.iter().enumerate() {
            jobs.push((pi, NEVER_RUN, ei));
        }
        for k in 0..200 {
            if suspend_at(p, k).is_none() {
                break;
            }
            points += 1;
            for (ei, _) in edits.iter().enumerate() {
                jobs.push((pi, k, ei));
            }
        }
    }
    let results: Vec<(u64, Vec<Violation>, Vec<String>)> = jobs
        .par_iter()
        .map(|(pi, k, ei)| {
            let p = &progs[*pi];
            let e = &edits[*ei];
            let mut runs = 0u64;
            let mut out = vec![];
            let mut outcomes = vec![];
            let Some((_, _, bp)) = suspend_at(p, *k) else { return (0, out, outcomes) };
            let Some(eline) = edit_line(p, e, bp) else { return (0, out, outcomes) };
            let rejected = matches!(e, Edit::Rejected | Edit::RejectedOnBreakpointLine);
            let probe_sets: Vec<Vec<&str>> = if thorough {
                let mut v: Vec<Vec<&str>> = PROBES.iter().map(|p| vec![*p]).collect();
                for a in PROBES {
                    for b in PROBES {
                        v.push(vec![a, b]);
                    }
                }
                v
            } else {
                PROBES.iter().map(|p| vec![*p]).collect()
            };
            for (probes, pre) in probe_sets.iter().flat_map(|ps| [3u8, 2, 1, 0, 7].into_iter().map(move |m| (ps.clone(), m))) {
                // pairs of probes only with both pre-edit lines typed
                if probes.len() > 1 && pre & 3 != 3 {
                    continue;
                }
                runs += 1;
                let (mut s, mut hist, _) = suspend_at_with(p, *k, pre).unwrap();
                let (mut base, _, _) = suspend_at_with(p, *k, pre).unwrap();
                let mk = |sig: String, detail: String, hist: &Vec<Ev>| Violation {
                    signature: format!("{} {:?}{}: {}", p.name, e, if pre & 4 != 0 { " (program loaded as a file)" } else { "" }, sig),
                    detail: if pre & 4 != 0 { format!("{} [the program lines were not typed but loaded through SourceFileAnalyzer::into_interpreter]", detail) } else { detail },
                    case: case_history(hist, false, false),
                };
                let ev = Ev::Line(eline.clone());
                let r = s.apply(&ev);
                hist.push(ev);
                match (&r, rejected) {
                    (CallResult::Panic(pn), _) => {
                        out.push(mk(format!("edit panicked {}", short_panic(pn)), pn.clone(), &hist));
                        continue;
                    }
                    (CallResult::Err(_, _), true) | (CallResult::Ok, false) => {}
                    (other, _) => {
                        out.push(mk("edit outcome unexpected".into(), format!("edit {:?} gave {:?}", eline, other), &hist));
                        continue;
                    }
                }
                if !rejected {
                    let snap = s.it.verif_snapshot();
                    if !snap.stack.is_empty() || !snap.loops.is_empty() || !snap.functions.is_empty() || snap.breakpoint.is_some() || snap.data_cursor.is_some() {
                        out.push(mk(
                            "runtime references survive the edit".into(),
                            format!("after {:?}: stack {} loops {} functions {} breakpoint {:?} data cursor {:?}", eline, snap.stack.len(), snap.loops.len(), snap.functions.len(), snap.breakpoint, snap.data_cursor.is_some()),
                            &hist,
                        ));
                    }
                }
                for (pi2, probe) in probes.iter().enumerate() {
                    // a probe may leave the program running or awaiting input (GOTO into an
                    // INPUT): the host breaks in before typing the next line, as the protocol requires
                    for x in [&mut s, &mut base] {
                        if x.state() != InterpreterState::Idle {
                            let _ = x.apply(&Ev::Break);
                        }
                    }
                    let got = run_probe(&mut s, probe);
                    let want_base = run_probe(&mut base, probe);
                    hist.push(Ev::LineToIdle(probe.to_string()));
                    if got.iter().any(|l| l.starts_with("Panic")) || got.last().map(|l| l.starts_with("Panic")).unwrap_or(false) {
                        out.push(mk(format!("probe {} panicked", probe), format!("{:?}", got), &hist));
                        break;
                    }
                    if pi2 > 0 {
                        continue; // second probe of a pair: no-panic only
                    }
                    outcomes.push(format!("{}:{}", probe, got.last().cloned().unwrap_or_default()));
                    if rejected {
                        if got != want_base {
                            out.push(mk(
                                format!("rejected edit changed probe {}", probe),
                                format!("after the rejected edit {:?}, {} gives {:?}; without the edit it gives {:?}", eline, probe, got, want_base),
                                &hist,
                            ));
                        }
                        continue;
                    }
                    let last = got.last().cloned().unwrap_or_default();
                    let expect_err = |k: &str| -> bool { last.starts_with(&format!("Error(\"{}\"", k)) };
                    let problem = match *probe {
                        "CONT" => (!expect_err("CannotContinue")).then(|| "CONT did not report CAN'T CONTINUE".to_string()),
                        "RETURN" => (!expect_err("ReturnWithoutGosub")).then(|| "RETURN did not report RETURN WITHOUT GOSUB".to_string()),
                        "NEXT I" => (!expect_err("NextWithoutFor")).then(|| "NEXT did not report NEXT WITHOUT FOR".to_string()),
                        "NEXT K" => (!expect_err("NextWithoutFor")).then(|| "NEXT of a loop opened in immediate mode did not report NEXT WITHOUT FOR".to_string()),
                        "PRINT FNA(1)" => (got != vec!["Print(\"0\\n\")".to_string(), "Idle".to_string()]).then(|| "a previously defined function is still callable".to_string()),
                        "READ Z: PRINT Z" => {
                            let has_data = p.data_line.is_some() && !matches!(e, Edit::DeleteDataLine);
                            if matches!(e, Edit::AddData) {
                                (got != vec!["Print(\"77\\n\")".to_string(), "Idle".to_string()]).then(|| "READ did not start from the first DATA item of the edited program".to_string())
                            } else if has_data {
                                (got != vec!["Print(\"11\\n\")".to_string(), "Idle".to_string()]).then(|| "READ did not start from the first DATA item".to_string())
                            } else {
                                (!expect_err("OutOfData")).then(|| "READ did not report OUT OF DATA".to_string())
                            }
                        }
                        "PRINT X;S$;A(1)" => (got != want_base).then(|| "variable or array contents changed by the edit".to_string()),
                        "Z(15)=7: PRINT Z(15);Z(20)" => (got != want_base).then(|| "an array's shape changed by the edit".to_string()),
                        // the replaced line 10 is what runs when execution is sent there
                        "GOTO 10" if matches!(e, Edit::ReplaceFirst) => (got != vec!["Print(\"new\\n\")".to_string(), "Idle".to_string()]).then(|| "GOTO into the replaced line runs something else than its new text".to_string()),
                        _ => None,
                    };
                    if let Some(pr) = problem {
                        out.push(mk(pr, format!("after edit {:?}, probe {} gave {:?} (without the edit: {:?})", eline, probe, got, want_base), &hist));
                    }
                }
            }
            (runs, out, outcomes)
        })
        .collect();
    let mut runs = 0u64;
    let mut oc: BTreeMap<String, u64> = BTreeMap::new();
    let mut seen = std::collections::HashSet::new();
    for (r, v, o) in results {
        runs += r;
        for x in o {
            *oc.entry(x.chars().take(60).collect()).or_insert(0) += 1;
        }
        for x in v {
            rep.violating_cases += 1;
            if seen.insert(x.signature.clone()) {
                rep.violations.push(x);
            }
        }
    }
    if oc.len() < 6 {
        machinery("vacuous: too few distinct probe outcomes");
    }
    rep.coverage = json!({
        "states": points,
        "transitions": runs,
        "traces_validated_against_impl": runs,
        "suspension_points": points,
        "edits": edits.len(),
        "probes": PROBES,
        "probe_pairs": thorough,
        "distinct_probe_outcomes": oc.len(),
        "probe_outcomes": oc,
        "exhaustive": true,
        "samples": [{"program":"R1","suspend_after_turns":9,"edit":"200","probe":"READ Z: PRINT Z"}],
    });
    rep.assumptions = vec!["replacing a line by identical text and deleting an absent line are not counted as changes (the property speaks of successful changes)".into()];
    rep
}
