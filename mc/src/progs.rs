//! Program grammar shared by C03, C07, C08, C09, C17: sequences of statement templates laid
//! out on numbered lines, with every way of joining adjacent statements by `:`.

use crate::refmodel::*;

/// A statement template; line references are by statement index and resolved at layout time.
#[derive(Clone, Debug)]
pub enum T {
    S(Stmt),
    /// IF <cond> THEN <line of last statement>
    IfThenLast(Expr),
    /// GOTO the line holding statement idx+2 (clamped to the last statement)
    GotoNextButOne,
    GotoFirst,
}

pub const SUB_LINE: u64 = 900;
pub const RECURSE_LINE: u64 = 950;
/// A subroutine that asks for input.
pub const INSUB_LINE: u64 = 800;
/// A recursion spread over two lines (the failing GOSUB is not on the line it targets).
pub const DEEP_LINE: u64 = 960;
/// A subroutine that runs a loop over I (the variable the callers' loops use).
pub const FORSUB_LINE: u64 = 850;
/// A subroutine that consists of its RETURN only.
pub const STUB_LINE: u64 = 870;
/// A recursion that calls a function at every depth (the frame stack is shared).
pub const FNSUB_LINE: u64 = 980;

fn p(items: Vec<PItem>) -> Stmt {
    Stmt::Print(items)
}
fn pe(e: Expr) -> Stmt {
    Stmt::Print(vec![PItem::E(e)])
}
fn assign(name: &str, e: Expr) -> Stmt {
    Stmt::Let(false, lv(name), e)
}
fn br(s: Stmt) -> Branch {
    Branch::Stmt(Box::new(s))
}

/// The full statement menu, simplest first.
pub fn full_menu() -> Vec<(&'static str, T)> {
    use Bin::*;
    let x = || var("X");
    vec![
        ("PRINT X", T::S(pe(x()))),
        ("PRINT \"A\";", T::S(p(vec![PItem::E(st("A")), PItem::Semi]))),
        ("X=X+1", T::S(assign("X", bin(Add, x(), num(1.0))))),
        ("IF X THEN PRINT 1", T::S(Stmt::If(x(), br(pe(num(1.0))), None))),
        (
            "IF X THEN PRINT 1 ELSE PRINT 2",
            T::S(Stmt::If(x(), br(pe(num(1.0))), Some(br(pe(num(2.0)))))),
        ),
        ("GOSUB sub", T::S(Stmt::Gosub(SUB_LINE))),
        ("FOR I=1 TO 2", T::S(Stmt::For("I".into(), num(1.0), num(2.0), None))),
        ("NEXT I", T::S(Stmt::Next("I".into()))),
        ("GOTO first", T::GotoFirst),
        ("GOTO next-but-one", T::GotoNextButOne),
        ("IF X THEN last", T::IfThenLast(x())),
        (
            "IF X=0 THEN GOSUB sub ELSE PRINT \"NO\"",
            T::S(Stmt::If(
                bin(Eq, x(), num(0.0)),
                br(Stmt::Gosub(SUB_LINE)),
                Some(br(pe(st("NO")))),
            )),
        ),
        ("READ A", T::S(Stmt::Read(vec![lv("A")]))),
        (
            "DATA 1,\"x\"",
            T::S(Stmt::Data(vec![DataItem::N(1.0), DataItem::S("x".into(), true)])),
        ),
        ("RETURN", T::S(Stmt::Return)),
        ("END", T::S(Stmt::End)),
        // ---- end of the 16-statement core ----
        (
            "PRINT X,Y$",
            T::S(p(vec![PItem::E(x()), PItem::Comma, PItem::E(var("Y$"))])),
        ),
        ("LET Y$=\"B\"", T::S(Stmt::Let(true, lv("Y$"), st("B")))),
        (
            "IF X THEN X=5",
            T::S(Stmt::If(x(), br(assign("X", num(5.0))), None)),
        ),
        ("FOR I=3 TO 1", T::S(Stmt::For("I".into(), num(3.0), num(1.0), None))),
        (
            "FOR J=2 TO 1 STEP -1",
            T::S(Stmt::For("J".into(), num(2.0), num(1.0), Some(un(Un::Neg, num(1.0))))),
        ),
        (
            "FOR K=1 TO K+2",
            T::S(Stmt::For("K".into(), num(1.0), bin(Add, var("K"), num(2.0)), None)),
        ),
        ("K=K+1", T::S(assign("K", bin(Add, var("K"), num(1.0))))),
        ("NEXT J", T::S(Stmt::Next("J".into()))),
        ("NEXT K", T::S(Stmt::Next("K".into()))),
        ("READ B$", T::S(Stmt::Read(vec![lv("B$")]))),
        ("READ A,B$", T::S(Stmt::Read(vec![lv("A"), lv("B$")]))),
        ("DATA y", T::S(Stmt::Data(vec![DataItem::S("y".into(), false)]))),
        ("RESTORE", T::S(Stmt::Restore)),
        ("DIM A(2)", T::S(Stmt::Dim("A".into(), vec![num(2.0)]))),
        (
            "DIM M(1,2,1)",
            T::S(Stmt::Dim("M".into(), vec![num(1.0), num(2.0), num(1.0)])),
        ),
        ("A(I)=I", T::S(Stmt::Let(false, lvi("A", vec![var("I")]), var("I")))),
        (
            "M(1,J,0)=7",
            T::S(Stmt::Let(false, lvi("M", vec![num(1.0), var("J"), num(0.0)]), num(7.0))),
        ),
        ("PRINT A(11)", T::S(pe(call("A", vec![num(11.0)])))),
        (
            "PRINT M(1,2,1);M(0,0,0)",
            T::S(p(vec![
                PItem::E(call("M", vec![num(1.0), num(2.0), num(1.0)])),
                PItem::Semi,
                PItem::E(call("M", vec![num(0.0), num(0.0), num(0.0)])),
            ])),
        ),
        (
            "DEF FNA(X)=X+Y",
            T::S(Stmt::Def("FNA".into(), vec!["X".into()], bin(Add, x(), var("Y")))),
        ),
        (
            "DEF FNB(Y)=FNA(Y)",
            T::S(Stmt::Def("FNB".into(), vec!["Y".into()], call("FNA", vec![var("Y")]))),
        ),
        ("Y=3", T::S(assign("Y", num(3.0)))),
        ("PRINT FNA(2)", T::S(pe(call("FNA", vec![num(2.0)])))),
        ("PRINT FNB(1)", T::S(pe(call("FNB", vec![num(1.0)])))),
        (
            "PRINT FNA(1/0)",
            T::S(pe(call("FNA", vec![bin(Div, num(1.0), num(0.0))]))),
        ),
        (
            "DEF FNC(X)=X/0",
            T::S(Stmt::Def("FNC".into(), vec!["X".into()], bin(Div, x(), num(0.0)))),
        ),
        ("PRINT FNC(1)", T::S(pe(call("FNC", vec![num(1.0)])))),
        (
            "PRINT INT(RND(1)*10)",
            T::S(pe(Expr::Int(Box::new(bin(Mul, Expr::Rnd(Box::new(num(1.0))), num(10.0)))))),
        ),
        (
            "PRINT I;J;K",
            T::S(p(vec![
                PItem::E(var("I")),
                PItem::Semi,
                PItem::E(var("J")),
                PItem::Semi,
                PItem::E(var("K")),
            ])),
        ),
        ("GOSUB recurse", T::S(Stmt::Gosub(RECURSE_LINE))),
        (
            "DEF FNR(X)=FNR(X)",
            T::S(Stmt::Def("FNR".into(), vec!["X".into()], call("FNR", vec![x()]))),
        ),
        ("PRINT FNR(1)", T::S(pe(call("FNR", vec![num(1.0)])))),
        ("X$=1 (ill-typed)", T::S(assign("X$", num(1.0)))),
        ("GOTO 777 (undefined)", T::S(Stmt::Goto(777))),
    ]
}

pub const CORE: usize = 16;

pub fn core_menu() -> Vec<(&'static str, T)> {
    full_menu().into_iter().take(CORE).collect()
}

/// The 8-template loop/subroutine core.
pub fn loop_menu() -> Vec<(&'static str, T)> {
    pick(&["PRINT X", "X=X+1", "GOSUB sub", "FOR I=1 TO 2", "NEXT I", "IF X=0 THEN GOSUB sub ELSE PRINT \"NO\"", "RETURN", "IF X THEN last", "GOSUB deep", "GOSUB forsub"])
}

/// Templates that only the feature-cluster menus use.
fn extra_templates() -> Vec<(&'static str, T)> {
    use Bin::*;
    vec![
        ("FOR J=1 TO 2", T::S(Stmt::For("J".into(), num(1.0), num(2.0), None))),
        ("PRINT I;J;X", T::S(p(vec![PItem::E(var("I")), PItem::Semi, PItem::E(var("J")), PItem::Semi, PItem::E(var("X"))]))),
        ("DATA 2", T::S(Stmt::Data(vec![DataItem::N(2.0)]))),
        ("PRINT A;B$", T::S(p(vec![PItem::E(var("A")), PItem::Semi, PItem::E(var("B$"))]))),
        ("DEF FNA(X)=X*2", T::S(Stmt::Def("FNA".into(), vec!["X".into()], bin(Mul, var("X"), num(2.0))))),
        ("PRINT X;Y", T::S(p(vec![PItem::E(var("X")), PItem::Semi, PItem::E(var("Y"))]))),
        ("PRINT A(I);A(0)", T::S(p(vec![PItem::E(call("A", vec![var("I")])), PItem::Semi, PItem::E(call("A", vec![num(0.0)]))]))),
        ("A(3)=1", T::S(Stmt::Let(false, lvi("A", vec![num(3.0)]), num(1.0)))),
        ("B$(1)=\"q\"", T::S(Stmt::Let(false, lvi("B$", vec![num(1.0)]), st("q")))),
        ("PRINT B$(1);B$(2)", T::S(p(vec![PItem::E(call("B$", vec![num(1.0)])), PItem::Semi, PItem::E(call("B$", vec![num(2.0)]))]))),
        ("A(1)=\"s\" (ill-typed)", T::S(Stmt::Let(false, lvi("A", vec![num(1.0)]), st("s")))),
        ("DEF FNB(X)=FNA(X+1)+X", T::S(Stmt::Def("FNB".into(), vec!["X".into()], bin(Add, call("FNA", vec![bin(Add, var("X"), num(1.0))]), var("X"))))),
        ("IF X THEN GOSUB sub ELSE PRINT \"NO\"", T::S(Stmt::If(var("X"), br(Stmt::Gosub(SUB_LINE)), Some(br(pe(st("NO"))))))),
        ("DEF ABS(X)=X*2", T::S(Stmt::Def("ABS".into(), vec!["X".into()], bin(Mul, var("X"), num(2.0))))),
        ("PRINT ABS(0-3);INT(2.5)", T::S(p(vec![PItem::E(Expr::Abs(Box::new(bin(Sub, num(0.0), num(3.0))))), PItem::Semi, PItem::E(Expr::Int(Box::new(num(2.5))))]))),
        ("DEF INT(N)=N+100", T::S(Stmt::Def("INT".into(), vec!["N".into()], bin(Add, var("N"), num(100.0))))),
        ("IF X THEN GOSUB sub", T::S(Stmt::If(var("X"), br(Stmt::Gosub(SUB_LINE)), None))),
        ("IF I=1 THEN FOR J=1 TO 2", T::S(Stmt::If(bin(Eq, var("I"), num(1.0)), br(Stmt::For("J".into(), num(1.0), num(2.0), None)), None))),
        ("READ A(I)", T::S(Stmt::Read(vec![lvi("A", vec![var("I")])]))),
        ("READ B$(2)", T::S(Stmt::Read(vec![lvi("B$", vec![num(2.0)])]))),
        ("REM c", T::S(Stmt::Rem(" c".into()))),
        ("DEF FND(X,Y)=X*10+Y", T::S(Stmt::Def("FND".into(), vec!["X".into(), "Y".into()], bin(Add, bin(Mul, var("X"), num(10.0)), var("Y"))))),
        ("PRINT FND(1,X)", T::S(pe(call("FND", vec![num(1.0), var("X")])))),
        ("PRINT FND(Y,FND(2,Y))", T::S(pe(call("FND", vec![var("Y"), call("FND", vec![num(2.0), var("Y")])])))),
        ("READ I,A(I)", T::S(Stmt::Read(vec![lv("I"), lvi("A", vec![var("I")])]))),
        ("DATA 3,42,2,7", T::S(Stmt::Data(vec![DataItem::N(3.0), DataItem::N(42.0), DataItem::N(2.0), DataItem::N(7.0)]))),
        ("K=5", T::S(assign("K", num(5.0)))),
        ("FOR K=2 TO 8 STEP K", T::S(Stmt::For("K".into(), num(2.0), num(8.0), Some(var("K"))))),
        ("FOR K=K TO 3", T::S(Stmt::For("K".into(), var("K"), num(3.0), None))),
        ("PRINT K;", T::S(p(vec![PItem::E(var("K")), PItem::Semi]))),
        // ---- INPUT family ----
        ("INPUT X", T::S(Stmt::Input(lv("X")))),
        ("INPUT Y$", T::S(Stmt::Input(lv("Y$")))),
        ("INPUT A(X)", T::S(Stmt::Input(lvi("A", vec![var("X")])))),
        ("IF X THEN INPUT X ELSE PRINT \"NO\"", T::S(Stmt::If(var("X"), br(Stmt::Input(lv("X"))), Some(br(pe(st("NO"))))))),
        ("IF X=0 THEN PRINT \"Z\" ELSE INPUT Y$", T::S(Stmt::If(bin(Eq, var("X"), num(0.0)), br(pe(st("Z"))), Some(br(Stmt::Input(lv("Y$"))))))),
        ("PRINT X;Y$;", T::S(p(vec![PItem::E(var("X")), PItem::Semi, PItem::E(var("Y$")), PItem::Semi]))),
        ("PRINT A(1);A(5)", T::S(p(vec![PItem::E(call("A", vec![num(1.0)])), PItem::Semi, PItem::E(call("A", vec![num(5.0)]))]))),
        ("GOSUB insub", T::S(Stmt::Gosub(INSUB_LINE))),
        ("GOSUB deep", T::S(Stmt::Gosub(DEEP_LINE))),
        ("GOSUB forsub", T::S(Stmt::Gosub(FORSUB_LINE))),
        ("GOSUB stub", T::S(Stmt::Gosub(STUB_LINE))),
        ("GOSUB fnsub", T::S(Stmt::Gosub(FNSUB_LINE))),
        ("PRINT X,", T::S(p(vec![PItem::E(var("X")), PItem::Comma]))),
        (
            "PRINT X=0 OR X=1 AND X=2;X=1 AND X=2 OR X=0",
            T::S(p(vec![
                PItem::E(bin(Or, bin(Eq, var("X"), num(0.0)), bin(And, bin(Eq, var("X"), num(1.0)), bin(Eq, var("X"), num(2.0))))),
                PItem::Semi,
                PItem::E(bin(Or, bin(And, bin(Eq, var("X"), num(1.0)), bin(Eq, var("X"), num(2.0))), bin(Eq, var("X"), num(0.0)))),
            ])),
        ),
        ("PRINT INT(RND(.5)*100);INT(RND(1)*100)", T::S(p(vec![PItem::E(Expr::Int(Box::new(bin(Mul, Expr::Rnd(Box::new(num(0.5))), num(100.0))))), PItem::Semi, PItem::E(Expr::Int(Box::new(bin(Mul, Expr::Rnd(Box::new(num(1.0))), num(100.0)))))]))),
        ("IF X=0 THEN PRINT 1/0", T::S(Stmt::If(bin(Eq, var("X"), num(0.0)), br(pe(bin(Div, num(1.0), num(0.0)))), None))),
        (
            "INPUT A(INT(RND(1)*3))",
            T::S(Stmt::Input(lvi("A", vec![Expr::Int(Box::new(bin(Mul, Expr::Rnd(Box::new(num(1.0))), num(3.0))))]))),
        ),
        ("PRINT A(0);A(1);A(2);RND(1)", T::S(p(vec![PItem::E(call("A", vec![num(0.0)])), PItem::Semi, PItem::E(call("A", vec![num(1.0)])), PItem::Semi, PItem::E(call("A", vec![num(2.0)])), PItem::Semi, PItem::E(Expr::Rnd(Box::new(num(1.0))))]))),
        // ---- values family: how numbers turn into text (PRINT, READ into a string variable) ----
        ("X=X-1", T::S(assign("X", bin(Sub, var("X"), num(1.0))))),
        ("PRINT -X;X*-3", T::S(p(vec![PItem::E(un(Un::Neg, var("X"))), PItem::Semi, PItem::E(bin(Mul, var("X"), un(Un::Neg, num(3.0))))]))),
        ("PRINT X/3;X*1E20;X/1E7", T::S(p(vec![PItem::E(bin(Div, var("X"), num(3.0))), PItem::Semi, PItem::E(bin(Mul, var("X"), num(1e20))), PItem::Semi, PItem::E(bin(Div, var("X"), num(1e7)))]))),
        ("DATA -0,1000,.5,1E20", T::S(Stmt::Data(vec![DataItem::N(-0.0), DataItem::N(1000.0), DataItem::N(0.5), DataItem::N(1e20)]))),
        ("READ Y$", T::S(Stmt::Read(vec![lv("Y$")]))),
        ("READ X", T::S(Stmt::Read(vec![lv("X")]))),
        ("PRINT Y$;X;", T::S(p(vec![PItem::E(var("Y$")), PItem::Semi, PItem::E(var("X")), PItem::Semi]))),
    ]
}

/// INPUT into both kinds and into an array cell, under IF / ELSE, in loops and subroutines.
pub fn input_menu() -> Vec<(&'static str, T)> {
    pick(&["INPUT X", "INPUT Y$", "INPUT A(X)", "IF X THEN INPUT X ELSE PRINT \"NO\"", "IF X=0 THEN PRINT \"Z\" ELSE INPUT Y$", "PRINT X;Y$;", "PRINT A(1);A(5)", "GOSUB insub", "X=X+1", "FOR I=1 TO 2", "NEXT I", "GOTO first", "IF X THEN last", "END", "INPUT A(INT(RND(1)*3))", "PRINT A(0);A(1);A(2);RND(1)"])
}

fn pick(names: &[&'static str]) -> Vec<(&'static str, T)> {
    let mut all = full_menu();
    all.extend(extra_templates());
    names
        .iter()
        .map(|n| all.iter().find(|(m, _)| m == n).unwrap_or_else(|| panic!("no template {}", n)).clone())
        .collect()
}

/// Nested loops, jumps over loop heads, subroutines.
pub fn nest_menu() -> Vec<(&'static str, T)> {
    pick(&["FOR I=1 TO 2", "FOR J=1 TO 2", "NEXT I", "NEXT J", "IF X THEN last", "X=X+1", "PRINT I;J;X", "GOTO next-but-one", "GOSUB sub", "IF I=1 THEN FOR J=1 TO 2"])
}

/// DATA statements, READ into both kinds, RESTORE.
pub fn data_menu() -> Vec<(&'static str, T)> {
    pick(&["DATA 1,\"x\"", "DATA y", "DATA 2", "READ A", "READ B$", "READ A,B$", "RESTORE", "PRINT A;B$", "GOTO first"])
}

/// User functions: definition, redefinition, dynamic scoping, failing bodies.
pub fn fn_menu() -> Vec<(&'static str, T)> {
    pick(&["DEF FNA(X)=X+Y", "DEF FNB(Y)=FNA(Y)", "DEF FNA(X)=X*2", "DEF FNC(X)=X/0", "Y=3", "X=X+1", "PRINT FNA(2)", "PRINT FNB(1)", "PRINT FNC(1)", "PRINT X;Y", "GOTO first", "DEF FNB(X)=FNA(X+1)+X", "DEF ABS(X)=X*2", "PRINT ABS(0-3);INT(2.5)", "DEF INT(N)=N+100", "GOSUB fnsub"])
}

/// Arrays: explicit and implicit dimensioning, strides, subscript errors.
pub fn array_menu() -> Vec<(&'static str, T)> {
    pick(&["DIM A(2)", "DIM M(1,2,1)", "A(I)=I", "M(1,J,0)=7", "PRINT A(11)", "PRINT M(1,2,1);M(0,0,0)", "FOR I=1 TO 2", "NEXT I", "PRINT A(I);A(0)", "A(3)=1", "B$(1)=\"q\"", "PRINT B$(1);B$(2)", "FOR J=2 TO 1 STEP -1", "NEXT J", "A(1)=\"s\" (ill-typed)", "READ A(I)", "READ B$(2)", "DATA 2", "READ I,A(I)", "DATA 3,42,2,7"])
}

/// IF / ELSE lines combined with subroutines and loops.
pub fn branch_menu() -> Vec<(&'static str, T)> {
    pick(&["IF X THEN PRINT 1", "IF X THEN PRINT 1 ELSE PRINT 2", "IF X=0 THEN GOSUB sub ELSE PRINT \"NO\"", "IF X THEN X=5", "IF X THEN last", "IF X THEN GOSUB sub", "X=X+1", "PRINT X", "GOTO first", "RETURN", "FOR I=1 TO 2", "NEXT I", "IF X THEN GOSUB sub ELSE PRINT \"NO\"", "IF X=0 THEN PRINT 1/0"])
}

/// Functions of two parameters called with arguments that mention the parameters' names.
pub fn fn2_menu() -> Vec<(&'static str, T)> {
    pick(&["DEF FND(X,Y)=X*10+Y", "PRINT FND(1,X)", "PRINT FND(Y,FND(2,Y))", "X=X+1", "Y=3", "PRINT X;Y"])
}

/// Loops whose limit, step or start mention the loop's own variable.
pub fn forvar_menu() -> Vec<(&'static str, T)> {
    pick(&["K=K+1", "K=5", "FOR K=1 TO K+2", "FOR K=2 TO 8 STEP K", "FOR K=K TO 3", "PRINT K;", "NEXT K"])
}

/// Values on their way to text: signed zero, fractions, large and small magnitudes, numeric DATA
/// items read into a string variable.
pub fn values_menu() -> Vec<(&'static str, T)> {
    pick(&["X=X+1", "X=X-1", "PRINT -X;X*-3", "PRINT X/3;X*1E20;X/1E7", "DATA -0,1000,.5,1E20", "READ Y$", "READ X", "PRINT Y$;X;", "PRINT X,", "PRINT INT(RND(.5)*100);INT(RND(1)*100)", "PRINT X=0 OR X=1 AND X=2;X=1 AND X=2 OR X=0"])
}

/// Statements that execute nothing (REM, DATA) between ones that do: what one call steps over.
pub fn quiet_menu() -> Vec<(&'static str, T)> {
    pick(&["REM c", "DATA 2", "PRINT X", "X=X+1", "GOTO next-but-one", "IF X THEN last", "READ A", "GOSUB sub", "END", "GOSUB stub"])
}

/// A REM swallows the rest of its line: a layout that joins a statement after one does not say
/// what the statement list says.
pub fn layout_is_faithful(seq: &[T], joins: u32) -> bool {
    for (i, t) in seq.iter().enumerate() {
        if let T::S(Stmt::Rem(_)) = t {
            if i + 1 < seq.len() && (joins >> i) & 1 == 1 {
                return false;
            }
        }
    }
    true
}

/// Lays a statement sequence out on lines. `joins` bit i set = statement i+1 shares the line
/// of statement i. Returns the program AST.
pub fn layout(seq: &[T], joins: u32) -> ProgramAst {
    let n = seq.len();
    // line number of each statement
    let mut line_of = vec![0u64; n];
    let mut cur = 0u64;
    for i in 0..n {
        if i == 0 || (joins >> (i - 1)) & 1 == 0 {
            cur = 10 * (i as u64 + 1);
        }
        line_of[i] = cur;
    }
    let mut prog = ProgramAst::new();
    let mut uses_sub = false;
    let mut uses_insub = false;
    let mut uses_deep = false;
    let mut uses_forsub = false;
    let mut uses_stub = false;
    let mut uses_fnsub = false;
    for (i, t) in seq.iter().enumerate() {
        let stmt = match t {
            T::S(s) => s.clone(),
            T::IfThenLast(c) => Stmt::If(c.clone(), Branch::Line(line_of[n - 1]), None),
            T::GotoNextButOne => Stmt::Goto(line_of[(i + 2).min(n - 1)]),
            T::GotoFirst => Stmt::Goto(line_of[0]),
        };
        if refs_line(&stmt, SUB_LINE) || refs_line(&stmt, RECURSE_LINE) {
            uses_sub = true;
        }
        if refs_line(&stmt, INSUB_LINE) {
            uses_insub = true;
        }
        if refs_line(&stmt, DEEP_LINE) {
            uses_deep = true;
        }
        if refs_line(&stmt, FORSUB_LINE) {
            uses_forsub = true;
        }
        if refs_line(&stmt, STUB_LINE) {
            uses_stub = true;
        }
        if refs_line(&stmt, FNSUB_LINE) {
            uses_fnsub = true;
        }
        prog.entry(line_of[i]).or_default().push(stmt);
    }
    if uses_insub {
        prog.insert(790, vec![Stmt::End]);
        prog.insert(
            INSUB_LINE,
            vec![
                Stmt::Print(vec![PItem::E(st("T")), PItem::Semi]),
                Stmt::Input(lv("X")),
                Stmt::Print(vec![PItem::E(st("U")), PItem::Semi]),
                Stmt::Return,
            ],
        );
    }
    if uses_sub {
        prog.insert(890, vec![Stmt::End]);
        prog.insert(
            SUB_LINE,
            vec![
                Stmt::Print(vec![PItem::E(st("S")), PItem::Semi]),
                Stmt::Let(false, lv("X"), bin(Bin::Add, var("X"), num(1.0))),
                Stmt::Return,
            ],
        );
        prog.insert(RECURSE_LINE, vec![Stmt::Gosub(RECURSE_LINE)]);
    }
    if uses_forsub {
        prog.insert(840, vec![Stmt::End]);
        prog.insert(
            FORSUB_LINE,
            vec![
                Stmt::For("I".into(), num(1.0), num(2.0), None),
                Stmt::Print(vec![PItem::E(st("F")), PItem::Semi]),
                Stmt::Next("I".into()),
            ],
        );
        prog.insert(FORSUB_LINE + 10, vec![Stmt::Return]);
    }
    if uses_stub {
        prog.insert(STUB_LINE - 5, vec![Stmt::End]);
        prog.insert(STUB_LINE, vec![Stmt::Return]);
    }
    if uses_fnsub {
        prog.insert(FNSUB_LINE - 1, vec![Stmt::End]);
        prog.insert(FNSUB_LINE, vec![Stmt::Print(vec![PItem::E(call("FNA", vec![num(1.0)])), PItem::Semi]), Stmt::Gosub(FNSUB_LINE)]);
    }
    if uses_deep {
        prog.insert(955, vec![Stmt::End]);
        prog.insert(DEEP_LINE, vec![Stmt::Let(false, lv("X"), bin(Bin::Add, var("X"), num(1.0)))]);
        prog.insert(DEEP_LINE + 10, vec![Stmt::Gosub(DEEP_LINE)]);
    }
    prog
}

fn refs_line(s: &Stmt, line: u64) -> bool {
    match s {
        Stmt::Gosub(n) | Stmt::Goto(n) => *n == line,
        Stmt::If(_, t, e) => {
            let b = |b: &Branch| match b {
                Branch::Line(n) => *n == line,
                Branch::Stmt(s) => refs_line(s, line),
            };
            b(t) || e.as_ref().map(|e| b(e)).unwrap_or(false)
        }
        _ => false,
    }
}

/// Join patterns to explore for n statements.
pub fn join_patterns(n: usize, all: bool) -> Vec<u32> {
    if n <= 1 {
        return vec![0];
    }
    let gaps = n - 1;
    if all {
        return (0..(1u32 << gaps)).collect();
    }
    let mut v = vec![0u32, (1u32 << gaps) - 1];
    for g in 0..gaps {
        v.push(1 << g);
    }
    v.sort();
    v.dedup();
    v
}
