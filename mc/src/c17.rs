//! C17 — tracing and warnings never change what a program does.
//! Shape B: every program of the grammar families (plus the fixed programs with reply
//! scripts) is run under all eight routes to the four (tracing, warnings) configurations;
//! trace and warning records are compared with the reference machine's execution trace.

use crate::c07::fixed_programs;
use crate::common::*;
use crate::gen::*;
use crate::progs::*;
use crate::refmodel::*;
use rayon::prelude::*;
use serde_json::json;
use std::collections::{BTreeMap, HashSet};
use std::sync::Mutex;

/// (name, warnings field, tracing field, command typed before RUN)
const ROUTES: [(&str, bool, bool, &str); 8] = [
    ("off/off", false, false, ""),
    ("warn", true, false, ""),
    ("trace(field)", false, true, ""),
    ("warn+trace(field)", true, true, ""),
    ("trace(TRACE cmd)", false, false, "TRACE"),
    ("warn+trace(TRACE cmd)", true, false, "TRACE"),
    ("trace field then NOTRACE", false, true, "NOTRACE"),
    ("warn, trace field then NOTRACE", true, true, "NOTRACE"),
];

struct Obs {
    filtered: Vec<String>,
    end: String,
    traces: Vec<u64>,
    warnings: Vec<(String, Option<u64>)>,
    final_state: abasic_core::verif::VerifState,
    effective_tracing: bool,
    effective_warnings: bool,
}

fn run_route(lines: &[String], replies: &[String], route: usize, cap: usize) -> Result<Obs, String> {
    let (_, w, t, cmd) = ROUTES[route];
    let mut s = Sess::new();
    s.it.enable_warnings = w;
    s.it.enable_tracing = t;
    for l in lines {
        let _ = s.apply(&Ev::Line(l.clone()));
    }
    if !cmd.is_empty() {
        let _ = s.apply(&Ev::Line(cmd.to_string()));
    }
    s.recs.clear();
    s.it.randomize(1);
    let mut it = replies.iter().cloned();
    let end = s.run_line("RUN", &mut it, cap);
    if let RunEnd::Panic(p) = &end {
        return Err(p.clone());
    }
    let mut fin = s.it.verif_snapshot();
    let effective_tracing = fin.enable_tracing;
    let effective_warnings = fin.enable_warnings;
    fin.enable_tracing = false;
    fin.enable_warnings = false;
    Ok(Obs {
        filtered: s.recs.iter().filter(|r| !matches!(r, Rec::Trace(_) | Rec::Warning(_, _))).map(|r| format!("{:?}", r)).collect(),
        end: format!("{:?}", end),
        traces: s.recs.iter().filter_map(|r| if let Rec::Trace(l) = r { Some(*l) } else { None }).collect(),
        warnings: s.recs.iter().filter_map(|r| if let Rec::Warning(m, l) = r { Some((m.clone(), *l)) } else { None }).collect(),
        final_state: fin,
        effective_tracing,
        effective_warnings,
    })
}

/// What a warning is about, independent of its wording: the name it quotes and whether it
/// speaks of an array, plus the line it is attributed to.
fn wnorm(w: &[(String, Option<u64>)]) -> Vec<(String, bool, Option<u64>)> {
    w.iter()
        .map(|(m, l)| {
            let name = m.split('\'').nth(1).unwrap_or("").to_string();
            (name, m.to_lowercase().contains("array"), *l)
        })
        .collect()
}

fn collapse(v: &[u64]) -> Vec<u64> {
    let mut out: Vec<u64> = vec![];
    for x in v {
        if out.last() != Some(x) {
            out.push(*x);
        }
    }
    out
}

#[derive(Default)]
struct Acc {
    programs: u64,
    runs: u64,
    with_warnings: u64,
    trace_compared: u64,
    viol: Vec<Violation>,
    violating: u64,
}

fn check_program(lines: &[String], replies: &[String], model: Option<&ProgramAst>, name: &str, acc: &mut Acc) {
    acc.programs += 1;
    let cap = 300;
    let mut obs = vec![];
    for r in 0..ROUTES.len() {
        acc.runs += 1;
        match run_route(lines, replies, r, cap) {
            Ok(o) => obs.push(o),
            Err(p) => {
                acc.violating += 1;
                acc.viol.push(Violation { signature: format!("panic {} [{}]", short_panic(&p), ROUTES[r].0), detail: p, case: json!({"kind":"program","lines":lines,"replies":replies,"seed":"1","warnings":ROUTES[r].1,"tracing":ROUTES[r].2}) });
                return;
            }
        }
    }
    let case = |r: usize| json!({"kind":"program","lines":lines,"replies":replies,"seed":"1","warnings":ROUTES[r].1,"tracing":ROUTES[r].2,"command_before_run":ROUTES[r].3});
    let mut problem: Option<(String, String, usize)> = None;
    for r in 1..ROUTES.len() {
        if obs[r].filtered != obs[0].filtered || obs[r].end != obs[0].end {
            problem = Some((format!("behaviour differs under {}", ROUTES[r].0), format!("with {}: {:?} end {}; with everything off: {:?} end {}", ROUTES[r].0, obs[r].filtered, obs[r].end, obs[0].filtered, obs[0].end), r));
            break;
        }
        if obs[r].final_state != obs[0].final_state {
            problem = Some((format!("final state differs under {}", ROUTES[r].0), format!("{:?} vs {:?}", obs[r].final_state, obs[0].final_state), r));
            break;
        }
    }
    if problem.is_none() {
        for r in 0..ROUTES.len() {
            let want_t = matches!(r, 2 | 3 | 4 | 5);
            let want_w = ROUTES[r].1;
            if obs[r].effective_tracing != want_t || obs[r].effective_warnings != want_w {
                problem = Some((format!("configuration not applied under {}", ROUTES[r].0), format!("tracing {} warnings {}", obs[r].effective_tracing, obs[r].effective_warnings), r));
                break;
            }
            if !want_t && !obs[r].traces.is_empty() {
                problem = Some((format!("trace records although tracing is off ({})", ROUTES[r].0), format!("{:?}", obs[r].traces), r));
                break;
            }
            if !want_w && !obs[r].warnings.is_empty() {
                problem = Some((format!("warning records although warnings are off ({})", ROUTES[r].0), format!("{:?}", obs[r].warnings), r));
                break;
            }
        }
    }
    // the two tracing routes and the two warning routes agree among themselves
    if problem.is_none() {
        if obs[2].traces != obs[4].traces || obs[3].traces != obs[5].traces || obs[2].traces != obs[3].traces {
            problem = Some(("trace records differ between routes to the same configuration".into(), format!("{:?} / {:?} / {:?} / {:?}", obs[2].traces, obs[3].traces, obs[4].traces, obs[5].traces), 4));
        } else if obs[1].warnings != obs[3].warnings || obs[1].warnings != obs[5].warnings || obs[1].warnings != obs[7].warnings {
            problem = Some(("warning records differ between routes to the same configuration".into(), format!("{:?} / {:?} / {:?}", obs[1].warnings, obs[3].warnings, obs[5].warnings), 3));
        }
    }
    if problem.is_none() {
        if let Some(p) = model {
            let (m, mend, _) = crate::c03::run_model_script(p, 1, true, replies, |_| {});
            let ok = !matches!(mend, crate::c03::ModelEnd::Undefined(_) | crate::c03::ModelEnd::Cap);
            let capped = obs[3].end.contains("Cap");
            if ok {
                acc.trace_compared += 1;
                let visits: Vec<u64> = m.events.iter().filter_map(|e| if let MEvent::Visit(l) = e { Some(*l) } else { None }).collect();
                let want = collapse(&visits);
                let got = collapse(&obs[3].traces);
                let same = if capped { let n = got.len().min(want.len()).saturating_sub(1); got[..n] == want[..n] } else { got == want };
                if !same {
                    problem = Some(("trace does not name the lines execution passes through".into(), format!("trace (collapsed) {:?}; reference visits {:?}", got, want), 3));
                }
                if problem.is_none() && !capped {
                    let mw: Vec<(String, Option<u64>)> = m.events.iter().filter_map(|e| if let MEvent::Warning(t, l) = e { Some((t.clone(), Some(*l))) } else { None }).collect();
                    if !mw.is_empty() {
                        acc.with_warnings += 1;
                    }
                    if wnorm(&mw) != wnorm(&obs[3].warnings) {
                        problem = Some(("warnings differ from the reference".into(), format!("warnings {:?}; reference {:?}", obs[3].warnings, mw), 3));
                    }
                }
            }
        }
    }
    if let Some((sig, detail, r)) = problem {
        acc.violating += 1;
        if acc.viol.len() < 20 {
            acc.viol.push(Violation { signature: format!("{} [{}]", sig, name), detail: format!("{:?}: {}", lines, detail), case: case(r) });
        }
    }
}

/// After a run has ended (or failed, or stopped), execution is sent back into each line of
/// the program with an immediate GOTO, with tracing switched on by each route: the first trace
/// record must name that line.
fn reentry_check(lines: &[String], replies: &[String], name: &str, acc: &mut Acc) {
    let numbers: Vec<u64> = lines.iter().filter_map(|l| l.split(' ').next().and_then(|n| n.parse().ok())).collect();
    for &target in &numbers {
        for (via_command, pending_reply) in [(false, false), (true, false), (false, true), (true, true)] {
            let mut s = Sess::new();
            let mut hist = vec![];
            for l in lines {
                let e = Ev::Line(l.clone());
                let _ = s.apply(&e);
                hist.push(e);
            }
            let mut it = replies.iter().cloned();
            if pending_reply {
                // stop the run at its first input request, answer it, and break in before the
                // INPUT statement is resumed: the reply is still pending when GOTO is typed
                if replies.is_empty() {
                    continue;
                }
                let mut none = std::iter::empty();
                let e = s.run_line("RUN", &mut none, 300);
                hist.push(Ev::LineToIdle("RUN".into()));
                if e != RunEnd::NoReply {
                    continue;
                }
                let r = Ev::Input(replies[replies.len() - 1].clone());
                let _ = s.apply(&r);
                hist.push(r);
            } else {
                let _ = s.run_line("RUN", &mut it, 300);
                hist.push(Ev::LineToIdle("RUN".into()));
            }
            if s.state() != abasic_core::InterpreterState::Idle {
                let _ = s.apply(&Ev::Break);
                hist.push(Ev::Break);
            }
            if via_command {
                let _ = s.apply(&Ev::Line("TRACE".into()));
                hist.push(Ev::Line("TRACE".into()));
            } else {
                s.it.enable_tracing = true;
            }
            s.recs.clear();
            acc.runs += 1;
            let go = format!("GOTO {}", target);
            let _ = s.run_line(&go, &mut it, 20);
            hist.push(Ev::LineToIdle(go.clone()));
            let first = s.recs.iter().find_map(|r| if let Rec::Trace(l) = r { Some(*l) } else { None });
            if first != Some(target) {
                acc.violating += 1;
                if acc.viol.len() < 20 {
                    acc.viol.push(Violation {
                        signature: format!("trace after re-entering a line with GOTO does not start with that line [{}]", name),
                        detail: format!("after the run, tracing on ({}), {}: first trace record {:?}, records {:?}", if via_command { "TRACE command" } else { "API field" }, go, first, s.recs),
                        case: case_history(&hist, false, !via_command),
                    });
                }
                return;
            }
        }
    }
}

/// With tracing on, interrupting a run at boundary k (break, then CONT) must leave the
/// collapsed trace unchanged: the records name the lines execution passes through, whatever
/// the host does between turns - in particular while a reply is pending.
fn trace_under_break(lines: &[String], replies: &[String], name: &str, acc: &mut Acc) {
    let run = |break_at: Option<usize>| -> (Vec<u64>, Vec<Ev>) {
        let mut s = Sess::new();
        s.it.enable_tracing = true;
        let mut hist = vec![];
        for l in lines {
            let e = Ev::Line(l.clone());
            let _ = s.apply(&e);
            hist.push(e);
        }
        s.recs.clear();
        s.it.randomize(1);
        let mut rp = replies.iter();
        let mut ev = Ev::Line("RUN".into());
        let mut k = 0usize;
        loop {
            let r = s.apply(&ev);
            hist.push(ev.clone());
            if r != CallResult::Ok || k > 300 {
                break;
            }
            k += 1;
            if Some(k) == break_at && s.state() != abasic_core::InterpreterState::Idle {
                let _ = s.apply(&Ev::Break);
                hist.push(Ev::Break);
                ev = Ev::Line("CONT".into());
                continue;
            }
            ev = match s.state() {
                abasic_core::InterpreterState::Running => Ev::Cont,
                abasic_core::InterpreterState::AwaitingInput => match rp.next() {
                    Some(x) => Ev::Input(x.clone()),
                    None => break,
                },
                _ => break,
            };
        }
        (collapse(&s.recs.iter().filter_map(|r| if let Rec::Trace(l) = r { Some(*l) } else { None }).collect::<Vec<_>>()), hist)
    };
    // tracing switched on only at the breakpoint (by the field, by the TRACE command): from
    // there on the records are those of the run traced from its start
    let mismatch: std::cell::Cell<Option<String>> = std::cell::Cell::new(None);
    let late = |break_at: Option<usize>, how: u8| -> (Vec<Vec<u64>>, Vec<Ev>) {
        let mut s = Sess::new();
        s.it.enable_tracing = break_at.is_none();
        let mut hist = vec![];
        for l in lines {
            let e = Ev::Line(l.clone());
            let _ = s.apply(&e);
            hist.push(e);
        }
        s.recs.clear();
        s.it.randomize(1);
        let mut rp = replies.iter();
        let mut ev = Ev::Line("RUN".into());
        let mut k = 0usize;
        let mut per_call: Vec<Vec<u64>> = vec![];
        loop {
            s.recs.clear();
            let r = s.apply(&ev);
            hist.push(ev.clone());
            per_call.push(s.recs.iter().filter_map(|r| if let Rec::Trace(l) = r { Some(*l) } else { None }).collect());
            if r != CallResult::Ok || k > 300 {
                break;
            }
            k += 1;
            if Some(k) == break_at && s.state() != abasic_core::InterpreterState::Idle {
                let _ = s.apply(&Ev::Break);
                hist.push(Ev::Break);
                if how == 0 {
                    s.it.enable_tracing = true;
                } else {
                    let _ = s.apply(&Ev::Line("TRACE".into()));
                    hist.push(Ev::Line("TRACE".into()));
                }
                // absolute clause: the statement CONT resumes with is on the line the breakpoint
                // names, and its trace record says so (whatever was or was not traced before)
                let at = s.it.verif_snapshot().breakpoint.map(|b| b.0);
                s.recs.clear();
                let r = s.apply(&Ev::Line("CONT".into()));
                hist.push(Ev::Line("CONT".into()));
                let first = s.recs.iter().find_map(|r| if let Rec::Trace(l) = r { Some(*l) } else { None });
                per_call.push(s.recs.iter().filter_map(|r| if let Rec::Trace(l) = r { Some(*l) } else { None }).collect());
                if at.is_some() && first != at {
                    per_call.push(vec![u64::MAX]); // marks the run as wrong for the caller
                    mismatch.set(Some(format!("CONT resumed on line {:?} but the first trace record names {:?}", at, first)));
                }
                if r != CallResult::Ok {
                    break;
                }
                k += 1;
                ev = match s.state() {
                    abasic_core::InterpreterState::Running => Ev::Cont,
                    abasic_core::InterpreterState::AwaitingInput => match rp.next() {
                        Some(x) => Ev::Input(x.clone()),
                        None => break,
                    },
                    _ => break,
                };
                continue;
            }
            ev = match s.state() {
                abasic_core::InterpreterState::Running => Ev::Cont,
                abasic_core::InterpreterState::AwaitingInput => match rp.next() {
                    Some(x) => Ev::Input(x.clone()),
                    None => break,
                },
                _ => break,
            };
        }
        (per_call, hist)
    };
    let (full, _) = late(None, 0);
    for k in 1..=30usize {
        for how in [0u8, 1] {
            if k >= full.len() {
                break;
            }
            acc.runs += 1;
            let (got, hist) = late(Some(k), how);
            if let Some(m) = mismatch.take() {
                acc.violating += 1;
                if acc.viol.len() < 20 {
                    acc.viol.push(Violation {
                        signature: format!("trace switched on at a breakpoint does not name the line execution resumes on [{}]", name),
                        detail: format!("break at boundary {}, tracing switched on ({}): {}", k, if how == 0 { "field" } else { "TRACE command" }, m),
                        case: case_history(&hist, false, how == 0),
                    });
                }
                return;
            }
            // (immediate repeats collapsed, as the property reads traces: re-executing a pending
            // INPUT after CONT names its line once more)
            let want: Vec<u64> = collapse(&full[k..].iter().flatten().copied().collect::<Vec<_>>());
            let have: Vec<u64> = collapse(&got.iter().flatten().copied().collect::<Vec<_>>());
            if have != want {
                acc.violating += 1;
                if acc.viol.len() < 20 {
                    acc.viol.push(Violation {
                        signature: format!("trace switched on at a breakpoint differs from the run traced from its start [{}]", name),
                        detail: format!("tracing switched on ({}) after a break at boundary {}: records {:?}; the run traced from its start gives {:?} from there on", if how == 0 { "field" } else { "TRACE command" }, k, have, want),
                        case: case_history(&hist, false, how == 0),
                    });
                }
                return;
            }
        }
    }
    let (base, _) = run(None);
    for k in 1..=40 {
        acc.runs += 1;
        let (t, hist) = run(Some(k));
        if t != base {
            acc.violating += 1;
            if acc.viol.len() < 20 {
                acc.viol.push(Violation {
                    signature: format!("trace changes when the run is interrupted and continued [{}]", name),
                    detail: format!("break + CONT at boundary {}: collapsed trace {:?}; uninterrupted {:?}", k, t, base),
                    case: case_history(&hist, false, true),
                });
            }
            return;
        }
    }
}

pub fn run(thorough: bool) -> Report {
    let mut rep = Report::new("C17", "exploration");
    let total = Mutex::new(Acc::default());
    for p in fixed_programs() {
        let lines: Vec<String> = p.lines.iter().map(|l| l.to_string()).collect();
        let replies: Vec<String> = p.replies.iter().map(|l| l.to_string()).collect();
        let mut acc = Acc::default();
        check_program(&lines, &replies, None, p.name, &mut acc);
        reentry_check(&lines, &replies, p.name, &mut acc);
        trace_under_break(&lines, &replies, p.name, &mut acc);
        merge(&total, acc);
    }
    let full = full_menu();
    let core = core_menu();
    let arr = array_menu();
    let nest = nest_menu();
    let fnm = fn_menu();
    let brm = branch_menu();
    let mut fams: Vec<(&Vec<(&'static str, T)>, usize, bool)> = vec![(&full, 2, true), (&core, 3, false), (&arr, 3, false), (&nest, 4, false), (&fnm, 3, false), (&brm, 3, true)];
    if thorough {
        fams.push((&full, 3, false));
        fams.push((&core, 4, false));
        fams.push((&arr, 4, false));
        fams.push((&nest, 5, false));
        fams.push((&fnm, 4, false));
        fams.push((&brm, 4, true));
    }
    let quiet = quiet_menu();
    fams.push((&quiet, 3, false));
    let inm = input_menu();
    fams.push((&inm, 2, true));
    fams.push((&inm, 3, false));
    if thorough {
        fams.push((&inm, 4, false));
    }
    for (menu, n, all) in &fams {
        let base = menu.len() as u64;
        let joins = join_patterns(*n, *all);
        let with_input = menu.iter().any(|m| m.0.starts_with("INPUT"));
        (0..pow(base, *n)).into_par_iter().for_each(|i| {
            let idxs = decode_seq(i, base, *n);
            let seq: Vec<T> = idxs.iter().map(|k| menu[*k].1.clone()).collect();
            let mut acc = Acc::default();
            for &j in &joins {
                if !layout_is_faithful(&seq, j) {
                    continue;
                }
                let prog = layout(&seq, j);
                let lines = render_program(&prog);
                if with_input {
                    // the input script is part of the quantification: two scripts per program
                    for si in [1usize, 2] {
                        check_program(&lines, &crate::c08::script(si, 8), Some(&prog), "grammar program with an input script", &mut acc);
                    }
                } else {
                    check_program(&lines, &[], Some(&prog), "grammar program", &mut acc);
                }
            }
            merge(&total, acc);
        });
    }
    // Empty statements (a colon with nothing before or after it) are statements of their line:
    // a visit that executes nothing else is still a visit. Expected line sequences by hand.
    {
        let cases: Vec<(Vec<&str>, Vec<u64>, Vec<(&str, u64)>)> = vec![
            (vec!["10 PRINT 1", "20 :", "30 ::", "40 PRINT 2"], vec![10, 20, 30, 40], vec![]),
            (vec!["10 GOSUB 100:", "20 END", "100 RETURN"], vec![10, 100, 10, 20], vec![]),
            (vec!["10 FOR I=1 TO 2:", "20 NEXT I"], vec![10, 20, 10, 20], vec![]),
            (vec!["10 : PRINT Q", "20 :: GOTO 40", "30 PRINT 3", "40 :"], vec![10, 20, 40], vec![("Use of undeclared variable 'Q'.", 10)]),
            // the same variable read twice in one statement, and once per iteration of a loop
            (vec!["10 PRINT Q + Q"], vec![10], vec![("Use of undeclared variable 'Q'.", 10), ("Use of undeclared variable 'Q'.", 10)]),
            // a scalar and an array of the same name are unrelated; assigning the empty string is assigning
            (vec!["10 DIM A(5)", "20 PRINT A"], vec![10, 20], vec![("Use of undeclared variable 'A'.", 20)]),
            (vec!["10 A = 3", "20 A(A) = 4"], vec![10, 20], vec![("Use of undeclared array 'A'.", 20)]),
            (vec!["10 S$ = \"\"", "20 PRINT S$;\"x\"", "30 READ N$: PRINT N$", "40 DATA \"\""], vec![10, 20, 30, 40], vec![]),
            // a warning is about the access, not about the text: subscripts are evaluated first
            (vec!["10 PRINT A(A(0))"], vec![10], vec![("Use of undeclared array 'A'.", 10)]),
            (vec!["10 B(1/0) = 1"], vec![10], vec![]),
            (vec!["10 PRINT D(E(1))"], vec![10], vec![("Use of undeclared array 'E'.", 10), ("Use of undeclared array 'D'.", 10)]),
            // line numbers at the ends of the range are lines like any other
            (vec!["0 X = X + 1", "10 IF X < 2 THEN 0", "18446744073709551615 PRINT X"], vec![0, 10, 0, 10, 18446744073709551615], vec![("Use of undeclared variable 'X'.", 0)]),
            (vec!["0 GOSUB 2", "1 END", "2 RETURN"], vec![0, 2, 1], vec![]),
            (vec!["0 GOSUB 2: X = 1", "1 END", "2 RETURN"], vec![0, 2, 0, 1], vec![]),
            // thousands of records waiting to be collected
            (vec!["10 FOR I=1 TO 1200", "20 X=X+1", "30 NEXT I", "40 PRINT X"], {
                let mut t = vec![10u64];
                for _ in 0..1200 {
                    t.push(20);
                    t.push(30);
                }
                t.push(40);
                t
            }, vec![("Use of undeclared variable 'X'.", 20)]),
            (vec!["10 FOR I=1 TO 3", "20 Y = Q", "30 NEXT I"], vec![10, 20, 30, 20, 30, 20, 30], vec![("Use of undeclared variable 'Q'.", 20), ("Use of undeclared variable 'Q'.", 20), ("Use of undeclared variable 'Q'.", 20)]),
        ];
        let mut acc = Acc::default();
        for (lines, want_trace, want_warn) in cases {
            let lines: Vec<String> = lines.iter().map(|l| l.to_string()).collect();
            check_program(&lines, &[], None, "program with empty statements", &mut acc);
            // all records taken at the end of the run (a host need not collect after every call)
            for lazy in [false, true] {
                let mut s = Sess::new();
                s.it.enable_warnings = true;
                s.it.enable_tracing = true;
                for l in &lines {
                    let _ = s.apply(&Ev::Line(l.clone()));
                }
                s.recs.clear();
                let (traces, warns): (Vec<u64>, Vec<(String, Option<u64>)>) = if lazy {
                    // drive the interpreter directly, taking output only once
                    let mut outs = vec![];
                    let r = guarded(|| {
                        let _ = s.it.start_evaluating("RUN");
                        let mut n = 0;
                        while s.it.get_state() == abasic_core::InterpreterState::Running && n < 6000 {
                            let _ = s.it.continue_evaluating();
                            n += 1;
                        }
                        s.it.take_output()
                    });
                    if let Ok(o) = r {
                        outs = o;
                    }
                    let mut t = vec![];
                    let mut w = vec![];
                    for o in outs {
                        match o {
                            abasic_core::InterpreterOutput::Trace(l) => t.push(l),
                            abasic_core::InterpreterOutput::Warning(m, l) => w.push((m, l)),
                            _ => {}
                        }
                    }
                    (t, w)
                } else {
                    let mut none = std::iter::empty();
                    let _ = s.run_line("RUN", &mut none, 6000);
                    (
                        s.recs.iter().filter_map(|r| if let Rec::Trace(l) = r { Some(*l) } else { None }).collect(),
                        s.recs.iter().filter_map(|r| if let Rec::Warning(m, l) = r { Some((m.clone(), *l)) } else { None }).collect(),
                    )
                };
                let got = collapse(&traces);
                let ww: Vec<(String, Option<u64>)> = want_warn.iter().map(|(m, l)| (m.to_string(), Some(*l))).collect();
                let how = if lazy { "output collected once at the end" } else { "output collected after every call" };
                if got != want_trace {
                    acc.violating += 1;
                    acc.viol.push(Violation { signature: format!("trace does not name the lines execution passes through [{:?}, {}]", lines, how), detail: format!("{:?}: trace (collapsed) {:?}, expected {:?}", lines, got, want_trace), case: json!({"kind":"program","lines":lines,"replies":[],"seed":"1","warnings":true,"tracing":true}) });
                } else if wnorm(&warns) != wnorm(&ww) {
                    acc.violating += 1;
                    acc.viol.push(Violation { signature: format!("warnings differ from the expected ones [{:?}, {}]", lines, how), detail: format!("{:?}: warnings {:?}, expected {:?}", lines, warns, ww), case: json!({"kind":"program","lines":lines,"replies":[],"seed":"1","warnings":true,"tracing":true}) });
                }
            }
        }
        merge(&total, acc);
    }
    // A line replaced between two executions is warned about for what it reads now: sessions in
    // which a line that read an assigned variable is retyped to read a never-assigned one at the
    // same place, and is then reached again without RUN.
    {
        let mut acc = Acc::default();
        for (first, second, via, want) in [
            (vec!["10 A=1", "20 PRINT A"], "20 PRINT B", "GOTO 20", vec![("Use of undeclared variable 'B'.", 20u64)]),
            (vec!["10 A=1", "20 X=A+A"], "20 X=B+C", "GOTO 20", vec![("Use of undeclared variable 'B'.", 20), ("Use of undeclared variable 'C'.", 20)]),
            (vec!["10 A=1: GOSUB 20: END", "20 PRINT A: RETURN"], "20 PRINT Q: RETURN", "GOSUB 20", vec![("Use of undeclared variable 'Q'.", 20)]),
            (vec!["10 A=1", "20 PRINT A"], "20 PRINT A", "GOTO 20", vec![]),
        ] {
            for tracing in [false, true] {
                let mut s = Sess::new();
                s.it.enable_warnings = true;
                s.it.enable_tracing = tracing;
                let mut hist = vec![];
                let mut none = std::iter::empty();
                for l in &first {
                    let e = Ev::Line(l.to_string());
                    let _ = s.apply(&e);
                    hist.push(e);
                }
                let _ = s.run_line("RUN", &mut none, 200);
                hist.push(Ev::LineToIdle("RUN".into()));
                let e = Ev::Line(second.to_string());
                let _ = s.apply(&e);
                hist.push(e);
                s.recs.clear();
                let _ = s.run_line(via, &mut none, 200);
                hist.push(Ev::LineToIdle(via.to_string()));
                let warns: Vec<(String, Option<u64>)> = s.recs.iter().filter_map(|r| if let Rec::Warning(m, l) = r { Some((m.clone(), *l)) } else { None }).collect();
                let ww: Vec<(String, Option<u64>)> = want.iter().map(|(m, l)| (m.to_string(), Some(*l))).collect();
                acc.runs += 1;
                if wnorm(&warns) != wnorm(&ww) {
                    acc.violating += 1;
                    acc.viol.push(Violation {
                        signature: format!("warnings of a retyped line differ from the expected ones [{} -> {}]", first.last().unwrap(), second),
                        detail: format!("{:?}, RUN, {:?}, {:?}: warnings {:?}, expected {:?}", first, second, via, warns, ww),
                        case: case_history(&hist, true, tracing),
                    });
                }
            }
        }
        merge(&total, acc);
    }
    let acc = total.into_inner().unwrap();
    if acc.with_warnings == 0 || acc.trace_compared == 0 {
        machinery("vacuous: no program produced warnings / no trace was compared");
    }
    let mut seen = HashSet::new();
    rep.violating_cases = acc.violating;
    let mut v = acc.viol;
    v.sort_by_key(|x| x.case["lines"].as_array().map(|a| a.iter().map(|l| l.as_str().unwrap_or("").len()).sum::<usize>()).unwrap_or(0));
    for x in v {
        if seen.insert(x.signature.clone()) {
            rep.violations.push(x);
        }
    }
    let _: BTreeMap<u8, u8> = BTreeMap::new();
    rep.coverage = json!({
        "evaluations": acc.runs,
        "distinct_nontrivial": acc.trace_compared,
        "rule": "each program is run under 8 routes to the 4 (tracing, warnings) configurations; non-trivial = distinct grammar programs whose trace and warning records were compared with the reference machine's execution",
        "exhaustive": true,
        "programs": acc.programs,
        "routes": ROUTES.iter().map(|r| r.0).collect::<Vec<_>>(),
        "programs_whose_reference_run_issues_warnings": acc.with_warnings,
        "families": fams.iter().map(|(m, n, a)| json!({"menu_size": m.len(), "statements": n, "all_joins": a})).collect::<Vec<_>>(),
        "samples": [{"program": ["10 FOR I = 1 TO 2: PRINT X", "20 NEXT I"], "trace_collapsed": [10, 20, 10, 20], "warnings": [["Use of undeclared variable 'X'.", 10], ["Use of undeclared variable 'X'.", 10]]}],
    });
    rep.assumptions = vec!["trace and warning expectations come from the reference machine (src/refmodel.rs)".into()];
    rep
}

fn merge(total: &Mutex<Acc>, acc: Acc) {
    let mut t = total.lock().unwrap();
    t.programs += acc.programs;
    t.runs += acc.runs;
    t.with_warnings += acc.with_warnings;
    t.trace_compared += acc.trace_compared;
    t.violating += acc.violating;
    if t.viol.len() < 300 {
        t.viol.extend(acc.viol);
    }
}
