//! C04 — the program store is a last-writer-wins map, listed and run in line order.
//! Shape A: BFS over edit histories to an empty frontier (full closure under the alphabet),
//! plus (thorough) every permutation-carrying sequence of <= 6 edits without dedup.

use crate::bfs::*;
use crate::common::*;
use crate::gen::*;
use rayon::prelude::*;
use serde_json::json;
use std::collections::BTreeMap;

const NUMS: [(&str, u64); 9] = [
    ("  5", 5),
    ("\t 10", 10),
    ("0", 0),
    ("00", 0),
    ("000000000000000000000000000010", 10),
    ("5", 5),
    ("10", 10),
    ("18446744073709551614", 18446744073709551614),
    ("18446744073709551615", 18446744073709551615),
];

#[derive(Clone, Copy, PartialEq)]
enum Kind {
    Good(char),
    /// stored, but prints nothing when run (a line holding only a colon)
    Silent,
    Empty,
    Bad,
}

const TEXTS: [(&str, Kind); 11] = [
    // the same literal in the other case (literals are pooled for the life of the interpreter)
    (" PRINT \"A\";", Kind::Good('A')),
    // blanks only by Unicode's definition: not a deletion, a line that does not tokenize
    (" \u{a0}", Kind::Bad),
    ("\u{b}", Kind::Bad),
    // two texts that differ only in the sign of a zero inside a DATA item
    (" DATA 0: PRINT \"z\";", Kind::Good('z')),
    (" DATA -0: PRINT \"z\";", Kind::Good('z')),
    // a line whose first statement executes nothing, with one that prints behind it
    (" DATA 1: PRINT \"d\";", Kind::Good('d')),
    (" PRINT \"a\";", Kind::Good('a')),
    (" :", Kind::Silent),
    ("", Kind::Empty),
    (" PRINT \"", Kind::Bad),
    (" %", Kind::Bad),
];

fn edit_line(n: usize, t: usize) -> String {
    format!("{}{}", NUMS[n].0, TEXTS[t].0)
}

/// Reference: fold a history into the map line number -> letter.
fn model(hist: &[Ev]) -> BTreeMap<u64, usize> {
    let mut m = BTreeMap::new();
    for e in hist {
        let l = match e {
            Ev::Line(l) | Ev::LineToIdle(l) => l,
            _ => continue,
        };
        for (n, (ns, key)) in NUMS.iter().enumerate() {
            for (t, (ts, kind)) in TEXTS.iter().enumerate() {
                let _ = n;
                if *l == format!("{}{}", ns, ts) {
                    match kind {
                        Kind::Good(_) | Kind::Silent => {
                            m.insert(*key, t);
                        }
                        Kind::Empty => {
                            m.remove(key);
                        }
                        Kind::Bad => {}
                    }
                }
            }
        }
    }
    m
}

/// What a fresh interpreter lists after receiving only this line (differential spelling).
fn fresh_listing(key: u64, t: usize) -> String {
    static CACHE: std::sync::OnceLock<std::sync::Mutex<std::collections::HashMap<(u64, usize), String>>> = std::sync::OnceLock::new();
    let cache = CACHE.get_or_init(Default::default);
    if let Some(v) = cache.lock().unwrap().get(&(key, t)) {
        return v.clone();
    }
    let v = fresh_listing_uncached(key, t);
    cache.lock().unwrap().insert((key, t), v.clone());
    v
}

fn fresh_listing_uncached(key: u64, t: usize) -> String {
    let mut s = Sess::new();
    let text = format!("{}{}", key, TEXTS[t].0);
    let _ = s.apply(&Ev::Line(text));
    s.recs.clear();
    let _ = s.apply(&Ev::Line("LIST".into()));
    s.printed()
}

fn letter(t: usize) -> Option<char> {
    match TEXTS[t].1 {
        Kind::Good(c) => Some(c),
        _ => None,
    }
}

/// Checks the store of `s` against the reference map; consumes the session.
fn check_store(s: &mut Sess, m: &BTreeMap<u64, usize>) -> Option<(String, String)> {
    let snap = match guarded(|| s.it.verif_snapshot()) {
        Ok(x) => x,
        Err(p) => return Some((format!("snapshot panic {}", short_panic(&p)), p)),
    };
    let keys: Vec<u64> = m.keys().copied().collect();
    let map_keys: Vec<u64> = snap.lines.iter().map(|(k, _)| *k).collect();
    if map_keys != snap.sorted_index_keys {
        return Some((
            "indexes disagree".into(),
            format!("token map holds {:?}, sorted index holds {:?}", map_keys, snap.sorted_index_keys),
        ));
    }
    if map_keys != keys {
        return Some((
            "stored keys differ from reference".into(),
            format!("stored {:?}, reference {:?}", map_keys, keys),
        ));
    }
    s.recs.clear();
    match s.apply(&Ev::Line("LIST".into())) {
        CallResult::Ok => {}
        other => return Some((format!("LIST failed {:?}", other), format!("{:?}", other))),
    }
    let listed: Vec<String> = s
        .recs
        .iter()
        .filter_map(|r| if let Rec::Print(p) = r { Some(p.clone()) } else { None })
        .collect();
    let want: Vec<String> = m.iter().map(|(k, c)| fresh_listing(*k, *c)).collect();
    if listed != want {
        return Some((
            "LIST differs".into(),
            format!("LIST gave {:?}, expected {:?}", listed, want),
        ));
    }
    s.recs.clear();
    let r = s.apply(&Ev::LineToIdle("RUN".into()));
    let want_out: String = m.values().filter_map(|t| letter(*t)).collect();
    if r != CallResult::Ok || s.state() != abasic_core::InterpreterState::Idle {
        return Some((
            format!("RUN ended {:?}", r).chars().take(60).collect(),
            format!("RUN over lines {:?} ended {:?} in state {:?}, printed {:?}", keys, r, s.state(), s.printed()),
        ));
    }
    if s.printed() != want_out {
        return Some((
            "RUN order differs".into(),
            format!("RUN printed {:?}, expected {:?}", s.printed(), want_out),
        ));
    }
    None
}

pub fn run(thorough: bool) -> Report {
    let mut rep = Report::new("C04", "model_checking");
    let mut alpha: Vec<Ev> = vec![];
    for n in 0..NUMS.len() {
        for t in 0..TEXTS.len() {
            alpha.push(Ev::Line(edit_line(n, t)));
        }
    }
    alpha.push(Ev::Line("18446744073709551616 PRINT \"x\";".into()));
    alpha.push(Ev::Line("LIST".into()));
    alpha.push(Ev::LineToIdle("RUN".into()));
    let check = |t: &Transition, s: &mut Sess| -> Vec<Violation> {
        let mut hist = t.hist.to_vec();
        hist.push(t.ev.clone());
        let mut out = vec![];
        if let CallResult::Panic(p) = t.result {
            out.push(Violation {
                signature: format!("panic {}", short_panic(p)),
                detail: format!("{:?} panicked: {}", t.ev, p),
                case: case_history(&hist, false, false),
            });
            return out;
        }
        let m = model(&hist);
        if let Some((sig, detail)) = check_store(s, &m) {
            out.push(Violation {
                signature: sig,
                detail,
                case: case_history(&hist, false, false),
            });
        }
        out
    };
    let mk = || Sess::new();
    let (stats, viol) = bfs(&mk, &[vec![]], &alpha, 40, &check, None, 10_000_000);
    if !stats.frontier_emptied && !stats.stopped_on_violations {
        machinery("C04 search did not reach an empty frontier");
    }
    let mut seen = std::collections::HashSet::new();
    for v in viol {
        rep.violating_cases += 1;
        if seen.insert(v.signature.clone()) {
            rep.violations.push(v);
        }
    }
    // distinct stores reached
    let mut unrolled = 0u64;
    if thorough || true {
        // Every sequence of <= L edits over three keys (no dedup): order irrelevance is
        // checked on every permutation rather than inferred from merged states.
        let keys = [2usize, 4, 8]; // "0", a 30-digit spelling of 10, u64::MAX
        let l = if thorough { 5 } else { 3 };
        let evs: Vec<(usize, usize)> = keys.iter().flat_map(|k| (0..TEXTS.len()).map(move |t| (*k, t))).collect();
        let base = evs.len() as u64;
        for len in 1..=l {
            let count = pow(base, len);
            unrolled += count;
            let v: Vec<Violation> = (0..count)
                .into_par_iter()
                .filter_map(|i| {
                    let seq = decode_seq(i, base, len);
                    let hist: Vec<Ev> = seq.iter().map(|e| Ev::Line(edit_line(evs[*e].0, evs[*e].1))).collect();
                    let mut s = Sess::new();
                    for (k, e) in hist.iter().enumerate() {
                        if let CallResult::Panic(p) = s.apply(e) {
                            return Some(Violation {
                                signature: format!("panic {}", short_panic(&p)),
                                detail: p,
                                case: case_history(&hist, false, false),
                            });
                        }
                        // list after every step: what LIST shows must follow each edit
                        s.recs.clear();
                        let _ = s.apply(&Ev::Line("LIST".into()));
                        let listed: Vec<String> = s.recs.iter().filter_map(|r| if let Rec::Print(p) = r { Some(p.clone()) } else { None }).collect();
                        let want: Vec<String> = model(&hist[..=k]).iter().map(|(key, c)| fresh_listing(*key, *c)).collect();
                        if listed != want {
                            let mut h: Vec<Ev> = vec![];
                            for e2 in &hist[..=k] {
                                h.push(e2.clone());
                                h.push(Ev::Line("LIST".into()));
                            }
                            return Some(Violation {
                                signature: "LIST differs (listing after every edit)".into(),
                                detail: format!("after {} edits with a LIST after each, LIST gave {:?}, expected {:?}", k + 1, listed, want),
                                case: case_history(&h, false, false),
                            });
                        }
                    }
                    let m = model(&hist);
                    if let Some((sig, detail)) = check_store(&mut s, &m) {
                        return Some(Violation { signature: sig, detail, case: case_history(&hist, false, false) });
                    }
                    // The same entries arriving as a source file (the CLI's and the language
                    // server's way in) must give the same map. A bare number in a file does not
                    // delete, so only sequences without deletions are compared.
                    if seq.iter().all(|e| TEXTS[evs[*e].1].1 != Kind::Empty) {
                        let text: String = hist.iter().map(|e| match e { Ev::Line(l) => l.clone(), _ => String::new() }).collect::<Vec<_>>().join("\n");
                        let t2 = text.clone();
                        match guarded(move || abasic_core::SourceFileAnalyzer::analyze(t2).into_interpreter()) {
                            Err(p) => return Some(Violation { signature: format!("panic while loading a file {}", short_panic(&p)), detail: p, case: serde_json::json!({"kind":"file","text":text}) }),
                            Ok(it) => {
                                let mut f = Sess::from_interpreter(it);
                                if let Some((sig, detail)) = check_store(&mut f, &m) {
                                    return Some(Violation { signature: format!("loaded from a file: {}", sig), detail, case: serde_json::json!({"kind":"file","text":text}) });
                                }
                            }
                        }
                    }
                    None
                })
                .collect();
            for x in v {
                rep.violating_cases += 1;
                if seen.insert(x.signature.clone()) {
                    rep.violations.push(x);
                }
            }
        }
    }
    // Texts the search above does not afford: statement texts that begin with a word the command
    // processor knows (as a variable name: the line is an edit like any other), and texts with a
    // carriage return inside (a blank between tokens, a character of a literal or of a remark).
    // Each is entered between two other lines, typed and loaded as a file, then deleted.
    let mut special = 0u64;
    {
        let mut texts: Vec<String> = vec![];
        for w in ["RUN", "LIST", "NEW", "CONT", "TRACE", "NOTRACE", "INTERNALS", "STATS"] {
            texts.push(format!(" {} = 7", w));
            texts.push(format!(" {} = 3: PRINT {}", w.to_lowercase(), w));
            texts.push(format!("{}=1", w));
        }
        for t in [" PRINT 1\r+ 2", " PRINT \"A\rB\"", " REM x\ry", " DATA p\rq, 2", " X = 1:\r Y = 2"] {
            texts.push(t.to_string());
        }
        for num in ["20", " 20", "18446744073709551615"] {
            for t in &texts {
                special += 1;
                let lines = vec!["10 PRINT \"a\";".to_string(), format!("{}{}", num, t), "30 PRINT \"c\";".to_string()];
                let key: u64 = num.trim().parse().unwrap();
                let mut hist: Vec<Ev> = vec![];
                let mut s = Sess::new();
                let mut problem: Option<String> = None;
                for l in &lines {
                    let e = Ev::Line(l.clone());
                    let r = s.apply(&e);
                    hist.push(e);
                    if r != CallResult::Ok || s.state() != abasic_core::InterpreterState::Idle || !s.recs.is_empty() {
                        problem = Some(format!("entering {:?} gave {:?}, state {:?}, output {:?}", l, r, s.state(), s.recs));
                        break;
                    }
                }
                if problem.is_none() {
                    let mut want = vec![10u64, key, 30];
                    want.sort();
                    let snap = s.it.verif_snapshot();
                    if snap.sorted_index_keys != want {
                        problem = Some(format!("stored keys {:?}, expected {:?}", snap.sorted_index_keys, want));
                    } else {
                        let text = lines.join("\n");
                        match guarded(move || abasic_core::SourceFileAnalyzer::analyze(text).into_interpreter()) {
                            Ok(it) => {
                                let loaded = Sess::from_interpreter(it).it.verif_snapshot().lines;
                                if loaded != snap.lines {
                                    problem = Some(format!("typed: {:?}; the same lines loaded as a file: {:?}", snap.lines, loaded));
                                }
                            }
                            Err(p) => problem = Some(format!("loading the lines as a file panicked: {}", p)),
                        }
                    }
                }
                if problem.is_none() {
                    let e = Ev::Line(num.to_string());
                    let r = s.apply(&e);
                    hist.push(e);
                    let keys = s.it.verif_snapshot().sorted_index_keys;
                    if r != CallResult::Ok || keys != vec![10, 30] {
                        problem = Some(format!("deleting line {} gave {:?}, keys {:?}", key, r, keys));
                    }
                }
                if let Some(p) = problem {
                    rep.add(Violation {
                        signature: format!("special text {:?}: not an ordinary edit", t.chars().take(24).collect::<String>()),
                        detail: p,
                        case: case_history(&hist, false, false),
                    });
                }
            }
        }
    }
    let mut cov = stats_json(&stats);
    if let serde_json::Value::Object(m) = &mut cov {
        m.insert("special_texts_entered_typed_and_loaded".into(), json!(special));
        m.insert("states".into(), json!(stats.states));
        m.insert("transitions".into(), json!(stats.transitions + unrolled));
        m.insert("traces_validated_against_impl".into(), json!(stats.transitions + unrolled));
        m.insert("exhaustive".into(), json!(true));
        m.insert("alphabet_size".into(), json!(alpha.len()));
        m.insert("unrolled_histories_without_dedup".into(), json!(unrolled));
        m.insert("samples".into(), json!([hist_json(&[Ev::Line(edit_line(5, 0)), Ev::Line(edit_line(1, 1)), Ev::Line(edit_line(5, 2)), Ev::Line("LIST".into())])]));
    }
    rep.coverage = cov;
    rep.assumptions = vec!["line texts are limited to the alphabet in DESIGN.md section 4 C04".into()];
    rep
}
