//! C06 — the static checker and the interpreter agree on what is an error.
//! Shape B: statement contexts x expression trees; accepted programs are executed under
//! every preset and must never fail with syntax / type mismatch / undefined statement;
//! rejected straight-line statements must fail when executed.

use crate::common::*;
use crate::gen::*;
use crate::refmodel::*;
use abasic_core::{DiagnosticMessage, SourceFileAnalyzer};
use rayon::prelude::*;
use serde_json::json;
use std::collections::{BTreeMap, HashSet};
use std::sync::Mutex;

fn contexts() -> Vec<&'static str> {
    vec![
        "PRINT {e}",
        "X = {e}",
        "X$ = {e}",
        "A({e}) = 1",
        "A$(1) = {e}",
        "X = A({e})",
        "IF {e} THEN PRINT 1",
        "IF {e} THEN PRINT 1 ELSE PRINT 2",
        "IF {e} THEN X$ = 1",
        "FOR I = {e} TO 2",
        "FOR I = 1 TO {e}",
        "FOR I = 1 TO 2 STEP {e}",
        "DIM B({e})",
        "X = ABS({e})",
        "X = INT({e})",
        "X = RND({e})",
        "X = FNA({e})",
        "X = FNS({e})",
        "X$ = FNA({e})",
        "LET X = {e}",
        "LET X$ = {e}",
        "PRINT {e}; X$, X",
        "X = {e}: PRINT X$ + 1",
        "PRINT 1: X$ = {e}",
        "IF {e} THEN 100",
        "IF {e} THEN 777",
        "IF {e} THEN 100 ELSE 777",
        "IF {e} THEN GOSUB 100 ELSE PRINT 2",
        "READ X, A({e})",
        "READ X$",
        "IF {e} THEN IF 1 THEN PRINT 1 ELSE PRINT 2 ELSE PRINT 3",
        "IF 1 THEN IF {e} THEN PRINT 1 ELSE PRINT 2 ELSE PRINT 3",
        "IF {e} THEN PRINT 1 ELSE IF 1 THEN PRINT 2 ELSE PRINT 3",
        "IF {e} THEN GOSUB 100 ELSE GOSUB 100",
        "IF {e} THEN FOR I = 1 TO 2 ELSE PRINT 2: NEXT I",
        // a DEF as the THEN statement of an IF that has an ELSE line
        "IF {e} THEN DEF FNW(X) = X * 2 ELSE 100\n11 IF {e} THEN PRINT FNW(2)",
        // nested IFs whose inner ELSE clause transfers control and is resumed before the outer ELSE
        "IF 1 THEN IF {e} THEN PRINT 1 ELSE GOSUB 100 ELSE PRINT 3",
        "IF {e} THEN IF 0 THEN PRINT 1 ELSE GOSUB 100 ELSE GOSUB 100",
        // an IF that is not the first statement of its line, resumed inside its THEN clause
        "Y = 1: IF {e} THEN GOSUB 100 ELSE PRINT 2",
        "PRINT 1;: Y = 2: IF {e} THEN GOSUB 100 ELSE GOSUB 100",
        // later subscripts of an array reference, in every role an array reference can play
        "X = M(1,{e})",
        "M(1,{e}) = 2",
        "X = M(0,1,{e})",
        "DIM N(2,{e})",
        "READ R(1,{e})",
        "X$ = M$(1,{e})",
        // replies stored by INPUT (the run is given the replies 42, -7, abc, 2.5 in turn)
        "INPUT X$: PRINT X$ + {e}",
        "INPUT T$({e}): PRINT T$(1)",
        "INPUT X: PRINT X + {e}",
        // a second store to the same name on one line (the first store creates the slot)
        "Y = 1: Y = {e}",
        "Y$ = \"A\": Y$ = {e}",
        "Y = 1: LET Y = {e}",
        "B(1) = 1: B(1) = {e}",
        // function bodies: calls are typed by the function's name, whatever the body yields
        "DEF FNT(X$) = {e}\n11 X = FNT(\"s\")",
        "DEF FNT(X$) = {e}\n11 PRINT FNT(\"s\")",
        "DEF FNU$(X) = {e}\n11 X$ = FNU$(1)",
        "DEF FNU$(X) = {e}\n11 PRINT FNU$(1) + \"q\"",
        "DEF FNV(X) = {e}\n11 X = FNV(1) + 1",
        "DEF FNV(X) = {e}\n11 IF FNV(1) THEN PRINT 1",
        // code that is only reached through a jump, placed after an END
        "GOSUB 50\n20 END\n50 X = {e}\n60 RETURN",
        "GOTO 50\n20 END\n50 PRINT {e}",
        "IF X THEN END\n11 X$ = {e}",
        // statements behind a subroutine call on the same line are executed after the RETURN
        "GOSUB 100: X$ = {e}",
        "IF X = X THEN GOSUB 100: PRINT {e}",
    ]
}

fn fixed_lines() -> Vec<&'static str> {
    vec!["GOTO 100", "GOSUB 100", "GOTO 777", "GOSUB 777", "FOR I$ = 1 TO 2", "NEXT I$", "NEXT I", "READ X", "READ X$, X", "RETURN", "DIM C", "PRINT FNQ(1)", "X = FNA(1, 2)", "X = FNA()", "PRINT NOT NOT X", "PRINT - -3", "X = -+1", "PRINT NOT -1", "X = 2 * -+3", "PRINT X$ = X$ = \"A\"", "X = \"A\" = \"A\" = 1", "X = A(- -1)", "GOTO 100.5", "GOSUB 100.25", "IF 1 THEN 100.5", "IF 0 THEN 777 ELSE 100.75", "GOTO 100.0", "GOTO 99.9", "IF X GOTO 100", "IF X = 0 GOTO 100", "IF X GO TO 100", "DIM P(5), Q(5)", "I$ = \"S\": FOR I$ = 1 TO 3", "Y = 1: READ Y$", "Y$ = \"\": READ Y"]
}

fn leaves() -> Vec<Expr> {
    vec![num(1.0), num(0.0), st("A"), var("X"), var("X$"), call("A", vec![num(1.0)]), call("A$", vec![num(1.0)])]
}

fn leaf_forms(with_unary: bool) -> Vec<Expr> {
    let mut v = vec![];
    for l in leaves() {
        v.push(l.clone());
        if with_unary {
            v.push(un(Un::Neg, l.clone()));
            v.push(un(Un::Not, l.clone()));
            v.push(un(Un::Plus, l.clone()));
        }
    }
    v
}

fn exprs(max_ops: usize, with_unary: bool) -> Vec<Expr> {
    let lf = leaf_forms(with_unary);
    let mut out = lf.clone();
    if max_ops >= 1 {
        for op in ALL_BIN {
            for a in &lf {
                for b in &lf {
                    out.push(bin(op, a.clone(), b.clone()));
                }
            }
        }
    }
    if max_ops >= 2 {
        for op1 in ALL_BIN {
            for op2 in ALL_BIN {
                for a in &lf {
                    for b in &lf {
                        for c in &lf {
                            out.push(bin(op2, bin(op1, a.clone(), b.clone()), c.clone()));
                            out.push(bin(op1, a.clone(), bin(op2, b.clone(), c.clone())));
                        }
                    }
                }
            }
        }
    }
    out
}

const PRESETS: [(&str, &str); 4] = [("0", "\"\""), ("1", "\"\""), ("0", "\"A\""), ("1", "\"A\"")];

fn program(ctx_line: &str, preset: usize, data: &str) -> Vec<String> {
    let v = program_raw(ctx_line, preset, data);
    v.iter().flat_map(|l| l.split('\n').map(|x| x.to_string()).collect::<Vec<_>>()).collect()
}

fn program_raw(ctx_line: &str, preset: usize, data: &str) -> Vec<String> {
    vec![
        format!("1 X = {}: X$ = {}", PRESETS[preset].0, PRESETS[preset].1),
        "5 DEF FNA(X) = X * 2".to_string(),
        "6 DEF FNS(X$) = 1".to_string(),
        format!("10 {}", ctx_line),
        "90 END".to_string(),
        "100 RETURN".to_string(),
        format!("200 DATA {}", data),
    ]
}

fn is_straight(line: &str) -> bool {
    let u = line.to_uppercase();
    !["IF", "GOTO", "GOSUB", "RETURN", "NEXT", "END", "STOP", "INPUT", "DEF", "FN"].iter().any(|k| u.contains(k))
}

/// Error kinds the analyzer reports, with their file lines.
fn analyze(lines: &[String]) -> Result<Vec<(usize, String)>, String> {
    let text = lines.join("\n");
    guarded(|| {
        let a = SourceFileAnalyzer::analyze(text);
        a.messages()
            .iter()
            .filter_map(|m| match m {
                DiagnosticMessage::Error(l, e) => Some((*l, err_kind(&e.error))),
                _ => None,
            })
            .collect()
    })
}

fn execute(lines: &[String]) -> RunEnd {
    let mut s = Sess::new();
    for l in lines {
        let _ = s.apply(&Ev::Line(l.clone()));
    }
    let mut replies = ["42", "-7", "abc", "2.5"].iter().map(|r| r.to_string()).cycle().take(12);
    s.run_line("RUN", &mut replies, 2000)
}

#[derive(Default)]
struct Acc {
    programs: u64,
    accepted: u64,
    rejected_straight: u64,
    runs: u64,
    ends: BTreeMap<String, u64>,
    viol: Vec<Violation>,
    violating: u64,
}

fn check_line(ctx_line: &str, acc: &mut Acc) {
    for data in ["1", "a"] {
        if data == "a" && !ctx_line.contains("READ") {
            continue;
        }
        let prog0 = program(ctx_line, 0, data);
        acc.programs += 1;
        let errs = match analyze(&prog0) {
            Ok(e) => e,
            Err(p) => {
                acc.violating += 1;
                acc.viol.push(Violation { signature: format!("analyzer panic {}", short_panic(&p)), detail: p, case: json!({"kind":"file","text":prog0.join("\n")}) });
                return;
            }
        };
        if errs.is_empty() {
            acc.accepted += 1;
            for preset in 0..PRESETS.len() {
                let prog = program(ctx_line, preset, data);
                acc.runs += 1;
                let end = execute(&prog);
                let cls = match &end {
                    RunEnd::Error(k, _) => k.split('(').next().unwrap_or(k).to_string(),
                    o => format!("{:?}", o),
                };
                *acc.ends.entry(cls).or_insert(0) += 1;
                let bad = match &end {
                    RunEnd::Error(k, _) => k.starts_with("Syntax") || k == "TypeMismatch" || k == "UndefinedStatement",
                    RunEnd::Panic(_) => true,
                    _ => false,
                };
                if bad {
                    acc.violating += 1;
                    if acc.viol.len() < 30 {
                        acc.viol.push(Violation {
                            signature: format!("accepted but fails: {} -> {:?}", ctx_line, end).chars().take(160).collect(),
                            detail: format!("analysis reports no error for {:?}, but RUN ends with {:?}", prog, end),
                            case: case_program(&prog, &[], 0),
                        });
                    }
                    break;
                }
            }
        } else if errs.iter().any(|(l, _)| *l == 3) && is_straight(ctx_line) {
            acc.rejected_straight += 1;
            for preset in 0..PRESETS.len() {
                let prog = program(ctx_line, preset, data);
                acc.runs += 1;
                let end = execute(&prog);
                if !matches!(end, RunEnd::Error(_, _)) {
                    acc.violating += 1;
                    if acc.viol.len() < 30 {
                        acc.viol.push(Violation {
                            signature: format!("rejected but runs: {} ({:?})", ctx_line, errs).chars().take(160).collect(),
                            detail: format!("analysis reports {:?} for {:?}, but RUN ends with {:?}", errs, prog, end),
                            case: case_program(&prog, &[], 0),
                        });
                    }
                    break;
                }
            }
            // the error must be reported where the offending text is, also when the same line
            // number was given earlier in the file with valid text
            if data == "1" && is_straight(ctx_line) {
                let files: Vec<(Vec<String>, usize, &str)> = vec![
                    (vec!["10 PRINT 1; 2; 3; 4; 5; 6; 7; 8; 9".to_string(), "20 PRINT 2".to_string(), format!("10 {}", ctx_line)], 2, "error of a redefined line reported elsewhere"),
                    // blank-only, empty and unnumbered file lines in front of it (a CRLF file's empty lines are a lone CR)
                    (vec!["   ".to_string(), "\r".to_string(), "10 PRINT 1".to_string(), String::new(), "\t".to_string(), format!("20 {}", ctx_line)], 5, "error reported on another file line when blank lines precede it"),
                ];
                for (dup, at, label) in files {
                    match analyze(&dup) {
                        Ok(e2) => {
                            let kinds: Vec<&String> = errs.iter().filter(|(l, _)| *l == 3).map(|(_, k)| k).collect();
                            let on_last: Vec<&String> = e2.iter().filter(|(l, _)| *l == at).map(|(_, k)| k).collect();
                            let elsewhere: Vec<&(usize, String)> = e2.iter().filter(|(l, _)| *l != at).collect();
                            if on_last != kinds || !elsewhere.is_empty() {
                                acc.violating += 1;
                                if acc.viol.len() < 30 {
                                    acc.viol.push(Violation {
                                        signature: format!("{}: {}", label, ctx_line).chars().take(160).collect(),
                                        detail: format!("file {:?}: errors {:?}; the statement alone gives {:?} and it is on file line {}", dup, e2, kinds, at),
                                        case: json!({"kind":"file","text":dup.join("\n")}),
                                    });
                                }
                            }
                        }
                        Err(p) => {
                            acc.violating += 1;
                            acc.viol.push(Violation { signature: format!("analyzer panic {}", short_panic(&p)), detail: p, case: json!({"kind":"file","text":dup.join("\n")}) });
                        }
                    }
                }
            }
            // and from a completely fresh state, as an immediate line
            let mut s = Sess::new();
            let mut none = std::iter::empty();
            acc.runs += 1;
            let end = s.run_line(ctx_line, &mut none, 2000);
            if !matches!(end, RunEnd::Error(_, _)) {
                acc.violating += 1;
                if acc.viol.len() < 30 {
                    acc.viol.push(Violation {
                        signature: format!("rejected but runs from a fresh state: {} ({:?})", ctx_line, errs).chars().take(160).collect(),
                        detail: format!("analysis reports {:?} for line {:?}, but executing it in a fresh interpreter ends with {:?}", errs, ctx_line, end),
                        case: case_history(&[Ev::LineToIdle(ctx_line.to_string())], false, false),
                    });
                }
            }
        }
    }
}

pub fn run(thorough: bool) -> Report {
    let mut rep = Report::new("C06", "exploration");
    let total = Mutex::new(Acc::default());
    let ctxs = contexts();
    let e1 = exprs(1, true);
    let e2 = exprs(2, false);
    let e2u = if thorough { exprs(2, true) } else { vec![] };
    let mut jobs: Vec<String> = fixed_lines().iter().map(|s| s.to_string()).collect();
    for c in &ctxs {
        for e in &e1 {
            jobs.push(c.replace("{e}", &e.render_min()));
        }
    }
    // two-operator expressions: plain leaves in the deep contexts (thorough: in every context),
    // with unary leaf forms in the deep contexts (thorough only)
    let deep: Vec<&str> = vec!["PRINT {e}", "X = {e}", "X$ = {e}", "IF {e} THEN PRINT 1"];
    let deep_ctxs: Vec<&str> = if thorough { ctxs.clone() } else { deep.clone() };
    for c in &deep_ctxs {
        for e in &e2 {
            if e.count_bin() == 2 {
                jobs.push(c.replace("{e}", &e.render_min()));
            }
        }
    }
    for c in &deep[..2] {
        for e in &e2u {
            if e.count_bin() == 2 {
                jobs.push(c.replace("{e}", &e.render_min()));
            }
        }
    }
    jobs.par_chunks(512).for_each(|chunk| {
        let mut acc = Acc::default();
        for line in chunk {
            check_line(line, &mut acc);
        }
        let mut t = total.lock().unwrap();
        t.programs += acc.programs;
        t.accepted += acc.accepted;
        t.rejected_straight += acc.rejected_straight;
        t.runs += acc.runs;
        for (k, v) in acc.ends {
            *t.ends.entry(k).or_insert(0) += v;
        }
        t.violating += acc.violating;
        if t.viol.len() < 2000 {
            t.viol.extend(acc.viol);
        }
    });
    // Long-file pass: the verdict on a line must not depend on unrelated lines around it.
    // Lines without jumps / functions are analysed alone and inside 150-line files.
    let indep: Vec<&String> = jobs.iter().filter(|l| {
        let u = l.to_uppercase();
        !["GOTO", "GOSUB", "FN", "THEN 1", "THEN 7", "ELSE 7", "READ", "NEXT", "RETURN", "\n"].iter().any(|k| u.contains(k))
    }).collect();
    let long_files = std::sync::atomic::AtomicU64::new(0);
    indep.par_chunks(150).for_each(|chunk| {
        let lines: Vec<String> = chunk.iter().enumerate().map(|(i, l)| format!("{} {}", 10 * (i + 1), l)).collect();
        long_files.fetch_add(1, std::sync::atomic::Ordering::Relaxed);
        let together = match analyze(&lines) {
            Ok(e) => e,
            Err(p) => {
                let mut t = total.lock().unwrap();
                t.violating += 1;
                t.viol.push(Violation { signature: format!("analyzer panic in a long file {}", short_panic(&p)), detail: p, case: json!({"kind":"file","text":lines.join("\n")}) });
                return;
            }
        };
        for (i, l) in lines.iter().enumerate() {
            let alone = analyze(&[l.clone()]).unwrap_or_default();
            let a: Vec<&String> = alone.iter().map(|(_, k)| k).collect();
            let b: Vec<&String> = together.iter().filter(|(fl, _)| *fl == i).map(|(_, k)| k).collect();
            if a != b {
                let mut t = total.lock().unwrap();
                t.violating += 1;
                if t.viol.len() < 2000 {
                    t.viol.push(Violation {
                        signature: format!("verdict on a line depends on the surrounding file: alone {:?}, in a long file {:?}", a, b),
                        detail: format!("line {:?} analysed alone reports {:?}; as line {} of a {}-line file of unrelated lines it reports {:?}", l, a, i, lines.len(), b),
                        case: json!({"kind":"file","text":lines[..=i].join("\n")}),
                    });
                }
                return;
            }
        }
    });
    let acc = total.into_inner().unwrap();
    if acc.accepted == 0 || acc.rejected_straight == 0 || acc.ends.len() < 3 {
        machinery("vacuous: no accepted or no rejected programs");
    }
    rep.violating_cases = acc.violating;
    let mut v = acc.viol;
    v.sort_by(|a, b| a.signature.len().cmp(&b.signature.len()).then(a.signature.cmp(&b.signature)));
    // group by root cause shape: direction + operators involved
    let mut seen = HashSet::new();
    for x in v {
        let dir = x.signature.split(':').next().unwrap_or("").to_string();
        let ops: String = x.signature.split_whitespace().filter(|w| ["=", "<>", "<", "<=", ">", ">=", "AND", "OR", "NOT", "+", "-", "*", "/", "^"].contains(w) || w.starts_with("NOT") || w.starts_with('+')).take(3).collect::<Vec<_>>().join(" ");
        if seen.insert(format!("{} {}", dir, ops)) && rep.violations.len() < 30 {
            rep.violations.push(x);
        }
    }
    rep.coverage = json!({
        "evaluations": acc.programs + acc.runs,
        "distinct_nontrivial": acc.accepted + acc.rejected_straight,
        "rule": "programs = statement context x expression tree (distinct texts); non-trivial = accepted programs (executed under all four presets) plus rejected straight-line statements (executed under all presets and from a fresh state)",
        "exhaustive": true,
        "contexts": ctxs.len(),
        "expressions_up_to_one_operator": e1.len(),
        "expressions_with_two_operators": e2.iter().filter(|e| e.count_bin() == 2).count(),
        "expressions_with_two_operators_and_unary_leaf_forms": e2u.iter().filter(|e| e.count_bin() == 2).count(),
        "contexts_with_two_operator_expressions": deep_ctxs.len(),
        "programs_analysed": acc.programs,
        "accepted": acc.accepted,
        "rejected_straight_line": acc.rejected_straight,
        "executions": acc.runs,
        "long_files_of_150_independent_lines": long_files.load(std::sync::atomic::Ordering::Relaxed),
        "execution_outcomes_of_accepted_programs": acc.ends,
        "samples": [program("X = A$(1) = \"A\"", 1, "1"), program("IF NOT X$ THEN GOSUB 100 ELSE PRINT 2", 2, "1")],
    });
    rep.assumptions = vec!["programs satisfy the property's precondition by construction (each DEF unique, on a lower line than any use, never jumped over)".into()];
    rep
}
