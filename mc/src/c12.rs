//! C12 — spacing and letter case outside literal text never change meaning.
//! Shape B with deviation bounding: base lines are all sequences of <= n token spellings;
//! every single (and, within a window, every pair of) blank insertion / blank deletion /
//! case flip at unprotected positions must leave the token sequence unchanged.

use crate::common::*;
use crate::gen::*;
use abasic_core::verif::tokenize;
use rayon::prelude::*;
use serde_json::json;
use std::collections::BTreeMap;

/// A spelling with `[`…`]` marking protected text (string literals, DATA item insides,
/// REM text). `tail` = the protected span is closed at both ends and runs to the end of
/// the line (REM).
struct Spelling {
    text: String,
    protected: Vec<(usize, usize)>,
    tail: bool,
    /// Must be the last spelling of a line (or, for DATA, be followed by ":").
    swallows: bool,
}

fn sp(markup: &str) -> Spelling {
    let mut text = String::new();
    let mut protected = vec![];
    let mut open = None;
    for c in markup.chars() {
        match c {
            '[' => open = Some(text.len()),
            ']' => protected.push((open.take().unwrap(), text.len())),
            c => text.push(c),
        }
    }
    let tail = markup.starts_with("REM");
    let swallows = markup.starts_with("REM") || markup.starts_with("DATA");
    Spelling {
        text,
        protected,
        tail,
        swallows,
    }
}

fn spellings() -> Vec<Spelling> {
    let plain = [
        "DIM", "LET", "PRINT", "INPUT", "GOTO", "GOSUB", "RETURN", "IF", "THEN", "ELSE", "AND", "OR",
        "NOT", "END", "STOP", "FOR", "TO", "STEP", "NEXT", "READ", "RESTORE", "DEF", "?", ":", ";",
        ",", "(", ")", "+", "-", "*", "/", "^", "=", "<>", "<=", ">=", "<", ">", "X", "X1", "A$",
        "SCORE", "TOTAL", "FNA", "7", "12", "1.5", ".5", "007", "E3", "1E3",
        // the letters no keyword and no other name of this table contains
        "JKQVWYZ",
        // a name ending in G: a blank and an O after it must not be taken for the start of GO TO
        "FLAG",
        // a numeral longer than any fixed buffer a tokenizer might collect digits in
        "3.14159265358979323846264338327",
    ];
    let mut v: Vec<Spelling> = plain.iter().map(|s| sp(s)).collect();
    v.push(sp("[\"a B\"]"));
    // literal / comment / DATA text that spells an identifier of the table in lower case:
    // interning must not let protected text decide the spelling of a later symbol
    v.push(sp("[\"x1\"]"));
    v.push(sp("[\"score\"]"));
    v.push(sp("DATA [x1], [fna]"));
    v.push(sp("REM[ x Y]"));
    v.push(sp("DATA [a b], [\"c D\"] ,[3]"));
    v.push(sp("DATA [\"q\"]"));
    v.push(sp("DATA [1],"));
    v.push(sp("DATA ,[x]"));
    // an unquoted item that holds a lone quote, and a quoted item with a colon in second place
    v.push(sp("DATA [6\"]"));
    v.push(sp("DATA [1],[\"c:D\"]"));
    v
}

struct Base {
    text: String,
    /// byte may not be deleted or case-flipped
    prot_byte: Vec<bool>,
    /// no insertion at gap g (between byte g-1 and g), g in 0..=len
    prot_gap: Vec<bool>,
}

fn build_base(sps: &[Spelling], idxs: &[usize]) -> Option<Base> {
    let mut text = String::new();
    let mut spans: Vec<(usize, usize, bool)> = vec![];
    for (k, i) in idxs.iter().enumerate() {
        let s = &sps[*i];
        if s.swallows && k + 1 < idxs.len() {
            let next = &sps[idxs[k + 1]];
            let ok = s.text.starts_with("DATA") && next.text == ":";
            if !ok {
                return None;
            }
        }
        if k > 0 {
            text.push(' ');
        }
        let off = text.len();
        text.push_str(&s.text);
        for (a, b) in &s.protected {
            spans.push((off + a, off + b, s.tail));
        }
    }
    let n = text.len();
    let mut prot_byte = vec![false; n];
    let mut prot_gap = vec![false; n + 1];
    for (a, b, tail) in spans {
        let b = if tail { n } else { b };
        for i in a..b {
            prot_byte[i] = true;
        }
        for g in a..=b {
            if tail || (g > a && g < b) {
                prot_gap[g] = true;
            }
        }
    }
    Some(Base {
        text,
        prot_byte,
        prot_gap,
    })
}

#[derive(Clone, Copy, Debug, PartialEq)]
enum Dev {
    /// 20 blanks at one gap
    InsertRun(usize),
    Insert(usize, u8),
    Delete(usize),
    Flip(usize),
}

fn deviations(b: &Base) -> Vec<Dev> {
    let bytes = b.text.as_bytes();
    let mut v = vec![];
    for g in 0..=bytes.len() {
        if !b.prot_gap[g] {
            v.push(Dev::Insert(g, b' '));
            v.push(Dev::Insert(g, b'\t'));
            v.push(Dev::InsertRun(g));
        }
    }
    for i in 0..bytes.len() {
        if b.prot_byte[i] {
            continue;
        }
        if bytes[i] == b' ' {
            v.push(Dev::Delete(i));
        }
        if bytes[i].is_ascii_alphabetic() {
            v.push(Dev::Flip(i));
        }
    }
    v
}

fn pos(d: &Dev) -> usize {
    match d {
        Dev::Insert(g, _) | Dev::InsertRun(g) => *g,
        Dev::Delete(i) | Dev::Flip(i) => *i,
    }
}

/// Applies deviations (positions refer to the base text).
fn apply(b: &Base, devs: &[Dev]) -> String {
    let bytes = b.text.as_bytes();
    let mut out: Vec<u8> = vec![];
    for i in 0..=bytes.len() {
        for d in devs {
            if let Dev::Insert(g, c) = d {
                if *g == i {
                    out.push(*c);
                }
            }
            if let Dev::InsertRun(g) = d {
                if *g == i {
                    out.extend(std::iter::repeat(b' ').take(20));
                }
            }
        }
        if i == bytes.len() {
            break;
        }
        let mut byte = Some(bytes[i]);
        for d in devs {
            match d {
                Dev::Delete(k) if *k == i => byte = None,
                Dev::Flip(k) if *k == i => {
                    byte = byte.map(|c| if c.is_ascii_lowercase() { c.to_ascii_uppercase() } else { c.to_ascii_lowercase() })
                }
                _ => {}
            }
        }
        if let Some(c) = byte {
            out.push(c);
        }
    }
    String::from_utf8(out).unwrap()
}

fn outcome(line: &str) -> String {
    match watch_text("line", line, || guarded(|| tokenize(line))) {
        Ok(Ok(t)) => format!("{:?}", t.iter().map(|x| format!("{:?}", x.0)).collect::<Vec<_>>()),
        Ok(Err(e)) => format!("error {}", e.kind),
        Err(p) => format!("panic {}", short_panic(&p)),
    }
}

fn global_forms(b: &Base) -> Vec<(&'static str, String)> {
    let bytes = b.text.as_bytes();
    let mut crunched = vec![];
    let mut spread = vec![];
    let mut lower = vec![];
    let mut upper = vec![];
    for i in 0..bytes.len() {
        if !b.prot_gap[i] && i > 0 {
            spread.push(b' ');
        }
        spread.push(bytes[i]);
        if !(bytes[i] == b' ' && !b.prot_byte[i]) {
            crunched.push(bytes[i]);
        }
        if b.prot_byte[i] {
            lower.push(bytes[i]);
            upper.push(bytes[i]);
        } else {
            lower.push(bytes[i].to_ascii_lowercase());
            upper.push(bytes[i].to_ascii_uppercase());
        }
    }
    let mut wide = vec![];
    for i in 0..bytes.len() {
        if !b.prot_gap[i] && i > 0 {
            wide.extend(std::iter::repeat(b' ').take(6));
        }
        wide.push(bytes[i]);
    }
    vec![
        ("wide", String::from_utf8(wide).unwrap()),
        ("crunched", String::from_utf8(crunched).unwrap()),
        ("spread", String::from_utf8(spread).unwrap()),
        ("lower", String::from_utf8(lower).unwrap()),
        ("upper", String::from_utf8(upper).unwrap()),
    ]
}

/// Remarks spelled in every way the keyword can be spelled, loaded as a source file: the stored
/// tokens (the remark's text included, trailing blanks and all) do not depend on the spelling.
fn remark_spellings_as_files() -> (u64, Vec<Violation>) {
    let mut out = vec![];
    let mut n = 0u64;
    for (prefix, tail) in [("", " hi  "), ("", "\tx \t"), ("PRINT 1: ", " k  "), ("", ""), ("", "  two  words "), ("X = 1 : ", " a:b ")] {
        let spellings = ["REM", "rem", "Rem", "R EM", "RE M", "r e m", "REM"];
        let mut first: Option<(String, Vec<(u64, Vec<String>)>)> = None;
        for sp in spellings {
            n += 1;
            let line = format!("10 {}{}{}", prefix, sp, tail);
            let text = line.clone();
            let toks = match guarded(move || abasic_core::SourceFileAnalyzer::analyze(text).into_interpreter()) {
                Ok(it) => Sess::from_interpreter(it).it.verif_snapshot().lines,
                Err(p) => {
                    out.push(Violation { signature: format!("panic {}", short_panic(&p)), detail: p, case: json!({"kind":"file","text":line}) });
                    continue;
                }
            };
            // the same line typed at the prompt
            let mut s = Sess::new();
            let _ = s.apply(&Ev::Line(line.clone()));
            let typed = s.it.verif_snapshot().lines;
            if typed != toks {
                out.push(Violation {
                    signature: format!("a remark loaded as a file differs from the same line typed ({:?})", sp),
                    detail: format!("{:?}: loaded {:?}, typed {:?}", line, toks, typed),
                    case: json!({"kind":"file","text":line}),
                });
            }
            match &first {
                None => first = Some((line, toks)),
                Some((l0, t0)) => {
                    if *t0 != toks {
                        out.push(Violation {
                            signature: format!("the spelling of REM changes the stored remark ({:?})", sp),
                            detail: format!("{:?} is stored as {:?}; {:?} as {:?}", l0, t0, line, toks),
                            case: json!({"kind":"file","text":line}),
                        });
                    }
                }
            }
        }
    }
    // lines without a blank (or with several, or a tab) behind the line number: loaded and typed
    for line in ["10PRINT123", "20X=4", "30GOTO10", "40?X;Y$", "50  PRINT 1", "60\tPRINT 1", "70REM x", "80DATA 1,a", "90:PRINT 2", "100\"s\"", "7 7 PRINT 7"] {
        n += 1;
        let text = line.to_string();
        let loaded = match guarded(move || abasic_core::SourceFileAnalyzer::analyze(text).into_interpreter()) {
            Ok(it) => Sess::from_interpreter(it).it.verif_snapshot().lines,
            Err(p) => {
                out.push(Violation { signature: format!("panic {}", short_panic(&p)), detail: p, case: json!({"kind":"file","text":line}) });
                continue;
            }
        };
        let mut s = Sess::new();
        let _ = s.apply(&Ev::Line(line.to_string()));
        let typed = s.it.verif_snapshot().lines;
        if typed != loaded {
            out.push(Violation {
                signature: "a line loaded as a file is stored differently from the same line typed".into(),
                detail: format!("{:?}: loaded {:?}, typed {:?}", line, loaded, typed),
                case: json!({"kind":"file","text":line}),
            });
        }
    }
    (n, out)
}

pub fn run(thorough: bool) -> Report {
    let mut rep = Report::new("C12", "exploration");
    let sps = spellings();
    let base = sps.len() as u64;
    let n = 3;
    let window = if thorough { 14usize } else { 6usize };
    let mut bases = 0u64;
    let mut skipped = 0u64;
    let mut evals = 0u64;
    let mut kinds: BTreeMap<String, u64> = BTreeMap::new();
    let mut by_sig: BTreeMap<String, (u64, String, String, String)> = BTreeMap::new();
    for len in 1..=n {
        let count = pow(base, len);
        let pairs_everywhere = len <= 1;
        let pairs_window = true;
        struct Out {
            skipped: bool,
            evals: u64,
            kinds: [u64; 4],
            viol: Vec<(String, String, String, String)>,
        }
        let outs: Vec<Out> = (0..count)
            .into_par_iter()
            .map(|i| {
                let idxs = decode_seq(i, base, len);
                let Some(b) = build_base(&sps, &idxs) else {
                    return Out { skipped: true, evals: 0, kinds: [0; 4], viol: vec![] };
                };
                let want = outcome(&b.text);
                let mut o = Out { skipped: false, evals: 0, kinds: [0; 4], viol: vec![] };
                let mut test = |desc: String, text: String, o: &mut Out| {
                    o.evals += 1;
                    let got = outcome(&text);
                    if got != want {
                        let kind = desc.split(|c: char| c == ' ' || c == '(').next().unwrap_or("").to_string();
                        let tokkind = if b.text.contains("DATA") { "DATA" } else if b.text.contains("REM") { "REM" } else { "other" };
                        let sig = if got.starts_with("panic") {
                            got.clone()
                        } else {
                            format!("{} changes tokens ({} line)", kind, tokkind)
                        };
                        o.viol.push((sig, format!("base {:?} -> {:?} ({}): tokens {} became {}", b.text, text, desc, want, got), b.text.clone(), text));
                    }
                };
                let devs = deviations(&b);
                for d in &devs {
                    let k = match d { Dev::Insert(_, b' ') | Dev::InsertRun(_) => 0, Dev::Insert(_, _) => 1, Dev::Delete(_) => 2, Dev::Flip(_) => 3 };
                    o.kinds[k] += 1;
                    test(format!("{:?}", d).replace("InsertRun", "insert-20-blanks").replace("Insert", "insert-blank").replace("Delete", "delete-blank").replace("Flip", "case-flip"), apply(&b, &[*d]), &mut o);
                }
                if pairs_everywhere || pairs_window {
                    for (x, d1) in devs.iter().enumerate() {
                        for d2 in devs.iter().skip(x + 1) {
                            if !pairs_everywhere && pos(d2).abs_diff(pos(d1)) > window {
                                continue;
                            }
                            if matches!(d1, Dev::InsertRun(_)) || matches!(d2, Dev::InsertRun(_)) {
                                continue;
                            }
                            // two edits of the same byte are not a pair of independent deviations
                            if matches!((d1, d2), (Dev::Delete(a), Dev::Delete(b)) | (Dev::Flip(a), Dev::Flip(b)) if a == b) {
                                continue;
                            }
                            test(format!("pair {:?}+{:?}", d1, d2), apply(&b, &[*d1, *d2]), &mut o);
                        }
                    }
                }
                for (name, text) in global_forms(&b) {
                    test(format!("{} form", name), text, &mut o);
                }
                o
            })
            .collect();
        for o in outs {
            if o.skipped {
                skipped += 1;
                continue;
            }
            bases += 1;
            evals += o.evals;
            for (k, name) in ["insert-space", "insert-tab", "delete-blank", "case-flip"].iter().enumerate() {
                *kinds.entry(name.to_string()).or_insert(0) += o.kinds[k];
            }
            for (sig, detail, b, t) in o.viol {
                let e = by_sig.entry(sig).or_insert((0, b.clone(), t.clone(), detail.clone()));
                e.0 += 1;
                if b.len() < e.1.len() {
                    *e = (e.0, b, t, detail);
                }
            }
        }
    }
    if kinds.values().any(|v| *v == 0) || kinds.len() < 4 {
        machinery("vacuous: a perturbation kind never applied");
    }
    for (sig, (cnt, b, t, detail)) in by_sig {
        rep.violating_cases += cnt;
        rep.violations.push(Violation {
            signature: sig,
            detail: format!("{} (smallest base of {} failing perturbations)", detail, cnt),
            case: json!({"kind":"line_pair","base":b,"perturbed":t}),
        });
    }
    let (remark_files, rv) = remark_spellings_as_files();
    for v in rv {
        rep.add(v);
    }
    rep.coverage = json!({
        "remark_spellings_loaded_as_files": remark_files,
        "evaluations": evals + bases,
        "distinct_nontrivial": evals,
        "rule": "base lines = all sequences of <= n token spellings joined by single blanks (REM/DATA only where they do not swallow later spellings); every perturbation (base, deviation set) is a distinct case and non-trivial (it differs from its base by construction)",
        "exhaustive": true,
        "spellings": sps.iter().map(|s| s.text.clone()).collect::<Vec<_>>(),
        "max_spellings_per_line": n,
        "base_lines": bases,
        "sequences_skipped_because_rem_or_data_would_swallow": skipped,
        "single_deviations_by_kind": kinds,
        "pair_window_bytes": window,
        "samples": [{"base":"PRINT SCORE","perturbed":"p R\tINTsc ore"}, {"base":"DATA a b, \"c D\" ,3","perturbed":"DATA  a b,\"c D\",3 "}],
    });
    rep.assumptions = vec!["protected regions (string literals, REM text, the inside of DATA items) are marked in the spelling table, not inferred from the tokenizer".into()];
    rep
}
