//! C14 — LIST output reloads to the same program.
//! Shape B: every storable line of the enumerated families; LIST must be a fixed point and
//! the reloaded program must behave identically (incl. the DATA items READ sees).

use crate::common::*;
use crate::gen::*;
use rayon::prelude::*;
use serde_json::json;
use std::collections::BTreeMap;

fn token_spellings() -> Vec<&'static str> {
    vec![
        "DIM", "LET", "PRINT", "INPUT", "GOTO", "GOSUB", "RETURN", "IF", "THEN", "ELSE", "AND", "OR",
        "NOT", "END", "STOP", "FOR", "TO", "STEP", "NEXT", "READ", "RESTORE", "DEF", "?", ":", ";",
        ",", "(", ")", "+", "-", "*", "/", "^", "=", "<>", "<=", ">=", "<", ">", "X", "X1", "A$",
        "SCORE", "TOTAL", "FNA", "7", "12", "1.5", ".5", "007", "\"a B\"", "\"\"", "\"é\"", "\"C:\\DOS\\RUN\"", "\"a\tb\"", "\"e\u{301}\u{200b}'x\"",
    ]
}

fn numerals() -> Vec<String> {
    let mut v: Vec<String> = ["0", "7", "007", ".5", "5.", "0.10", "1.5", "123456789012345678901234567890"]
        .iter()
        .map(|s| s.to_string())
        .collect();
    v.push(format!("0.{}1", "0".repeat(30)));
    v.push("9".repeat(400));
    v.push(format!("{}", f64::MAX)); // 309 digits
    v.push(format!("0.{}494065645841246544", "0".repeat(323))); // smallest denormal region
    // first numeral above DBL_MAX: DBL_MAX's digits with the leading digit bumped
    let mut above = format!("{}", f64::MAX);
    above.replace_range(0..1, "2");
    v.push(above);
    v.push("179769313486231580793728971405303415079934132710037826936173778980444968292764750946649017977587207096330286416692887910946555547851940402630657488671505820681908902000708383676273854845817711531764475730270069855571366959622842914819860834936475292719074168444365510704342711559699508093042880177904174497792".to_string());
    // whole numbers around 2^53 and 2^63..2^64, and a fixed grid of fractional numerals with
    // 16-19 significant digits (more than a double holds: parsing and listing must still agree)
    for s in ["9007199254740993", "9223372036854775807", "9223372036854775808", "10000000000000000000", "18446744073709551615", "18446744073709551616", "2.1234567890471892", "3.141592653589793238", "0.1234567890123456789"] {
        v.push(s.to_string());
    }
    // whole numbers of 15..24 digits (powers of ten, all nines, a leading 2) and the edges of
    // the 64-bit range: the lister must not route them through an integer type
    for k in 15..=24usize {
        v.push(format!("1{}", "0".repeat(k)));
        v.push("9".repeat(k));
        v.push(format!("2{}", "0".repeat(k)));
        v.push(format!("1{}.5", "0".repeat(k)));
    }
    for s in ["18446744073709555712", "99999999999999983616", "36893488147419103232", "18446744073709551617", "9223372036854775809", "4611686018427387904"] {
        v.push(s.to_string());
    }
    let mut x: u64 = 12345;
    for _ in 0..400 {
        x = x.wrapping_mul(6364136223846793005).wrapping_add(1442695040888963407);
        let digits = format!("{:019}", x % 10_000_000_000_000_000_000u64);
        let int_len = 1 + (x >> 61) as usize % 3;
        v.push(format!("{}.{}", &digits[..int_len], &digits[int_len..17 + (x >> 59) as usize % 3]));
    }
    v
}

fn data_items() -> Vec<&'static str> {
    vec!["a", "a b", "\"a\"", "\" a \"", "1", "-0", "1e3", "inf", "", "x \"y\"", "\"x\" y", "é", "\"a,b\"", "\"a:b\"", "\"1\"", "\"inf\"", "\"NaN\"", "\"1e3\"", "\"\"", "nan", "BEEP", "\"BEEP\"", "\u{a0}\"a\"", "\u{b}\"b\" "]
}

fn rem_forms() -> Vec<&'static str> {
    vec!["REM", "REM x", "REM  two  blanks ", "REM a:b:PRINT 1", "REMé", "REM \"q", "REM dos\r", "REM tab\t", "REM nbsp\u{a0}"]
}

pub const READER: &str = "9000 READ Z$: PRINT \"[\";Z$;\"]\": GOTO 9000";

fn list_of(s: &mut Sess) -> Vec<String> {
    s.recs.clear();
    let _ = s.apply(&Ev::Line("LIST".into()));
    s.recs
        .iter()
        .filter_map(|r| if let Rec::Print(p) = r { Some(p.clone()) } else { None })
        .collect()
}

fn transcript(lines: &[String], first: Option<&str>) -> Vec<String> {
    let mut s = Sess::new();
    for l in lines {
        let _ = s.apply(&Ev::Line(l.clone()));
    }
    if let Some(f) = first {
        let _ = s.apply(&Ev::Line(f.to_string()));
        let _ = s.apply(&Ev::Line(READER.to_string()));
    }
    s.recs.clear();
    let mut none = std::iter::empty();
    let end = s.run_line("RUN", &mut none, 300);
    let mut t: Vec<String> = s.recs.iter().map(|r| format!("{:?}", r)).collect();
    t.push(format!("{:?}", end));
    t
}

fn token_class(t: &str) -> String {
    let kind = t.split('(').next().unwrap_or("").to_string();
    if kind == "NumericLiteral" {
        let v = t.trim_start_matches("NumericLiteral(").trim_end_matches(')');
        let cls = match v.parse::<f64>() {
            Ok(x) if !x.is_finite() => "non-finite",
            Ok(x) if x.abs() < 1.0 => "magnitude below 1 (spelled with a leading dot)",
            _ => "other",
        };
        return format!("NumericLiteral[{}]", cls);
    }
    kind
}

/// Root-cause oriented description of the first place where the reloaded token
/// sequence departs from the stored one: the token kinds around it.
fn where_tokens_change(a: &[(u64, Vec<String>)], b: &[(u64, Vec<String>)]) -> String {
    for (i, (n, ta)) in a.iter().enumerate() {
        let Some((m, tb)) = b.get(i) else {
            return "a line disappears".into();
        };
        if n != m {
            return "line numbers differ".into();
        }
        for (k, t) in ta.iter().enumerate() {
            if tb.get(k) != Some(t) {
                let next = ta.get(k + 1).map(|t| token_class(t)).unwrap_or_else(|| "end of line".to_string());
                return format!("at {} followed by {}", token_class(t), next);
            }
        }
        if tb.len() != ta.len() {
            return format!("extra tokens after {}", ta.last().map(|t| token_class(t)).unwrap_or_default());
        }
    }
    "no token difference".into()
}

/// Returns a problem for the program made of `lines` (already numbered).
pub fn check_program(lines: &[String]) -> Result<bool, (String, String)> {
    let r = guarded(|| {
        let mut a = Sess::new();
        for l in lines {
            if a.apply(&Ev::Line(l.clone())) != CallResult::Ok {
                return Ok(false);
            }
        }
        let l1 = list_of(&mut a);
        if l1.is_empty() {
            return Ok(false);
        }
        // LIST must describe the stored program *now*: add and delete an unrelated line and
        // list again (a listing remembered from before an edit would be stale).
        let _ = a.apply(&Ev::Line("5 REM x".into()));
        let with_extra = list_of(&mut a);
        let _ = a.apply(&Ev::Line("5".into()));
        let again = list_of(&mut a);
        if with_extra.len() != l1.len() + 1 || again != l1 {
            return Err((
                "LIST does not follow edits".to_string(),
                format!("{:?}: LIST {:?}; after adding line 5: {:?}; after deleting it again: {:?}", lines, l1, with_extra, again),
            ));
        }
        let reload: Vec<String> = l1.iter().map(|l| l.trim_end_matches('\n').to_string()).collect();
        let mut b = Sess::new();
        for l in &reload {
            match b.apply(&Ev::Line(l.clone())) {
                CallResult::Ok => {}
                other => {
                    return Err((
                        "listed line is rejected on reload".to_string(),
                        format!("{:?} lists as {:?}, which is rejected: {:?}", lines, l, other),
                    ))
                }
            }
        }
        let l2 = list_of(&mut b);
        let ta = a.it.verif_snapshot().lines;
        let tb = b.it.verif_snapshot().lines;
        if l1 != l2 {
            return Err((
                format!("LIST is not a fixed point: {}", where_tokens_change(&ta, &tb)),
                format!("{:?} lists as {:?}; reloading that lists as {:?}", lines, l1, l2),
            ));
        }
        if ta != tb {
            return Err((
                format!("reloaded tokens differ: {}", where_tokens_change(&ta, &tb)),
                format!("{:?}: stored tokens {:?}, after reload {:?}", lines, ta, tb),
            ));
        }
        // the listing saved to a file and loaded back (the CLI's way in) is the same program too
        {
            let text = reload.join("\n");
            match guarded(move || abasic_core::SourceFileAnalyzer::analyze(text).into_interpreter()) {
                Ok(it) => {
                    let tc = Sess::from_interpreter(it).it.verif_snapshot().lines;
                    if ta != tc {
                        return Err((
                            format!("listing loaded as a file differs: {}", where_tokens_change(&ta, &tc)),
                            format!("{:?}: stored tokens {:?}; the listing {:?} loaded as a source file gives {:?}", lines, ta, reload, tc),
                        ));
                    }
                }
                Err(p) => return Err((format!("panic while loading the listing as a file {}", short_panic(&p)), p)),
            }
        }
        let (r1, r2) = (transcript(lines, None), transcript(&reload, None));
        if r1 != r2 {
            return Err((
                "RUN differs after reload".to_string(),
                format!("{:?}: RUN gives {:?}, reloaded listing gives {:?}", lines, r1, r2),
            ));
        }
        let (d1, d2) = (transcript(lines, Some("1 GOTO 9000")), transcript(&reload, Some("1 GOTO 9000")));
        if d1 != d2 {
            return Err((
                "READ sees different DATA after reload".to_string(),
                format!("{:?}: items read {:?}, after reload {:?}", lines, d1, d2),
            ));
        }
        Ok(true)
    });
    match r {
        Ok(x) => x,
        Err(p) => Err((format!("panic {}", short_panic(&p)), format!("{:?}: {}", lines, p))),
    }
}

/// The stored program of a session with history: lines entered, the DATA read once, lines
/// replaced and added, then the program as it stands is run in that session and, from its
/// listing, in a fresh interpreter.
fn check_session(a: &str, b: &str) -> Result<(), (String, String)> {
    let a = a.to_string();
    let b = b.to_string();
    let r = guarded(move || {
        let mut s = Sess::new();
        let mut hist = vec![format!("10 {}", a), "1 GOTO 9000".to_string(), READER.to_string()];
        for l in &hist {
            let _ = s.apply(&Ev::Line(l.clone()));
        }
        let mut none = std::iter::empty();
        let _ = s.run_line("RUN", &mut none, 300);
        if s.state() != abasic_core::InterpreterState::Idle {
            let _ = s.apply(&Ev::Break);
        }
        hist.push("RUN".into());
        for l in [format!("10 PRINT \"p\";: {}", b), format!("20 {}", a), format!("30 PRINT \"q\": {}", b)] {
            let _ = s.apply(&Ev::Line(l.clone()));
            hist.push(l);
        }
        let listing: Vec<String> = list_of(&mut s).iter().map(|l| l.trim_end_matches('\n').to_string()).collect();
        s.recs.clear();
        let end = s.run_line("RUN", &mut none, 300);
        let mut t1: Vec<String> = s.recs.iter().map(|r| format!("{:?}", r)).collect();
        t1.push(format!("{:?}", end));
        let mut f = Sess::new();
        for l in &listing {
            let _ = f.apply(&Ev::Line(l.clone()));
        }
        f.recs.clear();
        let end2 = f.run_line("RUN", &mut none, 300);
        let mut t2: Vec<String> = f.recs.iter().map(|r| format!("{:?}", r)).collect();
        t2.push(format!("{:?}", end2));
        if t1 != t2 {
            return Err((
                "RUN of a program stored by a session with history differs from its reloaded listing".to_string(),
                format!("session {:?}: RUN gives {:?}; the listing {:?} entered into a fresh interpreter gives {:?}", hist, t1, listing, t2),
            ));
        }
        Ok(())
    });
    match r {
        Ok(x) => x,
        Err(p) => Err((format!("panic {}", short_panic(&p)), p)),
    }
}

pub fn run(thorough: bool) -> Report {
    let mut rep = Report::new("C14", "exploration");
    let mut programs: Vec<Vec<String>> = vec![];
    // (i) token adjacencies
    let sp = token_spellings();
    let n = if thorough { 3 } else { 2 };
    for len in 1..=n {
        for i in 0..pow(sp.len() as u64, len) {
            let text = decode_seq(i, sp.len() as u64, len).iter().map(|k| sp[*k]).collect::<Vec<_>>().join(" ");
            programs.push(vec![format!("10 {}", text)]);
        }
    }
    let fam1 = programs.len();
    // (ii) numerals
    for num in numerals() {
        programs.push(vec![format!("10 PRINT {}", num)]);
        programs.push(vec![format!("10 X = {} + {}", num, num)]);
        programs.push(vec![format!("10 DATA {}", num)]);
    }
    // (iii) DATA lines
    let items = data_items();
    let seps = [",", " , "];
    let terms = ["", ":PRINT 1", " : PRINT 1"];
    let mut data_lines = vec![];
    for len in 1..=3usize {
        for i in 0..pow(items.len() as u64, len) {
            let idx = decode_seq(i, items.len() as u64, len);
            for sep in seps {
                if len == 1 && sep != "," {
                    continue;
                }
                for term in terms {
                    let body = idx.iter().map(|k| items[*k]).collect::<Vec<_>>().join(sep);
                    data_lines.push(format!("DATA {}{}", body, term));
                }
            }
        }
    }
    for d in &data_lines {
        programs.push(vec![format!("10 {}", d)]);
    }
    // (iv) REM
    for r in rem_forms() {
        programs.push(vec![format!("10 {}", r)]);
        programs.push(vec![format!("10 PRINT 1: {}", r)]);
    }
    // (v) keywords typed with blanks between their letters (the listing spells them solid), in
    // particular the two keywords that change how the rest of the line is read
    let mut spaced = 0u64;
    for stmt in ["REM hello", "DATA 7, \"x y\"", "PRINT 1", "GOTO 10", "GOSUB 10", "INPUT X", "RESTORE", "IF X THEN 10 ELSE 10", "FOR I = 1 TO 2 STEP 1", "DEF FNA(X) = X", "READ X"] {
        let kw_len = stmt.find(' ').unwrap_or(stmt.len());
        for at in 1..kw_len {
            for blank in [" ", "\t", "  "] {
                let text = format!("{}{}{}", &stmt[..at], blank, &stmt[at..]);
                programs.push(vec![format!("10 {}", text)]);
                programs.push(vec![format!("10 PRINT 2: {}", text), "20 READ A: PRINT A".to_string()]);
                spaced += 2;
            }
        }
    }
    // (vi) line numbers at the edges of the range: the listing shows every stored line
    for p in [
        vec!["0 PRINT \"a\"", "18446744073709551615 PRINT \"z\""],
        vec!["10 READ A,B$: PRINT A;B$", "18446744073709551615 DATA 1.5,tail"],
        vec!["18446744073709551614 PRINT 1", "18446744073709551615 PRINT 2"],
        vec!["4294967295 PRINT 0", "4294967296 PRINT 1", "9007199254740993 PRINT 2", "9223372036854775808 PRINT 3"],
        vec!["18446744073709551615 PRINT \"only\""],
        vec!["0 DATA 5", "1 READ A: PRINT A"],
    ] {
        programs.push(p.iter().map(|l| l.to_string()).collect());
    }
    // (vii) lines typed out of numeric order, a later line holding in lower case (as literal, remark
    // or DATA text) what an earlier line uses as a name; and lines typed in lower case where a
    // numeral is followed by a name or by e, a sign and digits
    for p in [
        vec!["20 PRINT \"int\";\"abs\";\"x1\"", "10 PRINT INT(7.5);ABS(0-3);X1"],
        vec!["20 DATA score, fna", "10 SCORE = 1: DEF FNA(X) = X: PRINT SCORE;FNA(2)"],
        vec!["30 REM total", "20 PRINT \"rnd\"", "10 TOTAL = 2: PRINT TOTAL;RND(1) < 1"],
        vec!["10 e3 = 5: print 2e3", "20 x = 1.5 e1", "30 print 7 e-2; 4e+1; 1e", "40 e = 2: print 3e; 3 e 2"],
        vec!["10 print 2E3; 7 E-2", "20 PRINT 1E; 1 E 5; 6.5E1"],
        vec!["10 for e = 1 to 2e: print 1e1: next e"],
    ] {
        programs.push(p.iter().map(|l| l.to_string()).collect());
    }
    // two-line programs over a core
    let core: Vec<String> = data_lines
        .iter()
        .step_by(if thorough { 13 } else { 61 })
        .cloned()
        .chain(rem_forms().iter().map(|s| s.to_string()))
        .chain(["PRINT \"a B\";X1", "IF X THEN 20 ELSE 10", "FOR I = .5 TO 007 STEP 1.5"].iter().map(|s| s.to_string()))
        .collect();
    // (the ordered pairs are generated on the fly: tens of millions of them in the thorough tier,
    // which as a list of programs was what the memory of this check went to)
    let ncore = core.len();
    let pair_stored = std::sync::atomic::AtomicU64::new(0);
    let pair_failures: Vec<(Vec<String>, (String, String))> = (0..ncore * ncore)
        .into_par_iter()
        .filter_map(|k| {
            let p = vec![format!("10 {}", core[k / ncore]), format!("20 {}", core[k % ncore])];
            match check_program(&p) {
                Ok(true) => {
                    pair_stored.fetch_add(1, std::sync::atomic::Ordering::Relaxed);
                    None
                }
                Ok(false) => None,
                Err(e) => Some((p, e)),
            }
        })
        .collect();
    let mut results: Vec<(usize, Result<bool, (String, String)>)> = programs
        .par_iter()
        .enumerate()
        .map(|(i, p)| (i, check_program(p)))
        .collect();
    let total = (programs.len() + ncore * ncore) as u64;
    for (p, e) in pair_failures {
        programs.push(p);
        results.push((programs.len() - 1, Err(e)));
    }
    let mut stored = pair_stored.load(std::sync::atomic::Ordering::Relaxed);
    let mut by_sig: BTreeMap<String, (u64, usize, String)> = BTreeMap::new();
    for (i, r) in results {
        match r {
            Ok(true) => stored += 1,
            Ok(false) => {}
            Err((sig, detail)) => {
                stored += 1;
                let _ = fam1;
                let e = by_sig.entry(sig.clone()).or_insert((0, i, detail.clone()));
                e.0 += 1;
                let cur: usize = programs[e.1].iter().map(|l| l.len()).sum();
                let new: usize = programs[i].iter().map(|l| l.len()).sum();
                if new < cur {
                    e.1 = i;
                    e.2 = detail;
                }
            }
        }
    }
    // sessions with history over the same core
    let sess_res: Vec<(usize, usize, (String, String))> = (0..ncore * ncore).into_par_iter().filter_map(|k| check_session(&core[k / ncore], &core[k % ncore]).err().map(|e| (k / ncore, k % ncore, e))).collect();
    let session_pairs = (ncore * ncore) as u64;
    {
        let mut seen = std::collections::HashSet::new();
        let mut v = sess_res;
        v.sort_by_key(|(a, b, _)| core[*a].len() + core[*b].len());
        for (a, b, (sig, detail)) in v {
            rep.violating_cases += 1;
            if seen.insert(sig.clone()) {
                rep.violations.push(Violation {
                    signature: sig,
                    detail,
                    case: json!({"kind":"history","events": hist_json(&[Ev::Line(format!("10 {}", core[a])), Ev::Line("1 GOTO 9000".into()), Ev::Line(READER.into()), Ev::LineToIdle("RUN".into()), Ev::Line(format!("10 PRINT \"p\";: {}", core[b])), Ev::Line(format!("20 {}", core[a])), Ev::Line(format!("30 PRINT \"q\": {}", core[b])), Ev::Line("LIST".into()), Ev::LineToIdle("RUN".into())]), "warnings": false, "tracing": false}),
                });
            }
        }
    }
    for (sig, (cnt, i, detail)) in by_sig {
        rep.violating_cases += cnt;
        rep.violations.push(Violation {
            signature: sig,
            detail: format!("{} (smallest of {} failing programs)", detail, cnt),
            case: json!({"kind":"history","events": hist_json(&programs[i].iter().map(|l| Ev::Line(l.clone())).chain([Ev::Line("LIST".into())]).collect::<Vec<_>>()), "warnings": false, "tracing": false}),
        });
    }
    rep.coverage = json!({
        "evaluations": total,
        "distinct_nontrivial": stored,
        "rule": "programs = every token-spelling sequence of <= n spellings as one line, every numeral spelling in three contexts, every DATA line of <= 3 item shapes x separators x terminators, REM forms, and all ordered pairs over a core; non-trivial = the program was accepted and stored (so LIST had something to print); distinct by construction",
        "exhaustive": true,
        "token_spellings": sp.len(),
        "max_spellings_per_line": n,
        "numerals": numerals().len(),
        "data_lines": data_lines.len(),
        "two_line_core": core.len(),
        "keyword_with_inner_blank_programs": spaced,
        "sessions_with_history": session_pairs,
        "samples": ["10 IF X THEN 20 ELSE 10", "10 DATA x \"y\", \" a \" : PRINT 1", format!("10 PRINT {}", "9".repeat(12))],
    });
    rep.assumptions = vec!["behaviour under RUN is compared by transcript with a 300-turn cap; DATA items are pinned by a reader block appended to both programs".into()];
    rep
}
