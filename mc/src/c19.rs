//! C19 — the Web adapter is a faithful, trap-free wrapper under the page's protocol.
//! Shape A on the real code: the *real* `abasic-web/ts/main.ts` (hosted in node, see
//! js/page_host.js) drives the *real* `abasic_web::JsInterpreter` (native build) through a
//! synchronous RPC channel; a mirror `abasic_core::Interpreter` receives the same calls.
//! BFS over page events {start-up with a program, submit, break, tick}.

use crate::common::*;
use abasic_core::verif::VerifState;
use abasic_core::{Interpreter, InterpreterState};
use abasic_web::JsInterpreter;
use rayon::prelude::*;
use serde_json::{json, Value as J};
use std::collections::{BTreeMap, HashSet};
use std::io::{BufRead, BufReader, Write};
use std::process::{Child, ChildStdin, ChildStdout, Command, Stdio};
use std::sync::Mutex;

#[derive(Clone, Debug, PartialEq, Eq, Hash)]
pub enum PEv {
    Submit(String),
    Break,
    Tick,
}

fn pev_json(e: &PEv) -> J {
    match e {
        PEv::Submit(t) => json!({"submit": t}),
        PEv::Break => json!("ctrl-c"),
        PEv::Tick => json!("timer tick"),
    }
}

struct Host {
    child: Child,
    stdin: ChildStdin,
    stdout: BufReader<ChildStdout>,
}

#[derive(Clone, Debug, Default)]
struct Done {
    threw: Option<String>,
    timers: u64,
    input_disabled: bool,
    fully: bool,
    ready: bool,
    ui: Vec<String>,
}

/// Real adapter + mirror core interpreter.
struct System {
    adapter: JsInterpreter,
    mirror: Interpreter,
    mirror_error: Option<String>,
    problems: Vec<(String, String)>,
    calls: u64,
    trapped: bool,
}

fn state_code(s: InterpreterState) -> u64 {
    match s {
        InterpreterState::Idle => 0,
        InterpreterState::Running => 1,
        InterpreterState::AwaitingInput => 2,
        InterpreterState::NewInterpreterRequested => 99,
    }
}

fn out_type_code(r: &abasic_core::InterpreterOutput) -> u64 {
    use abasic_core::InterpreterOutput::*;
    match r {
        Print(_) => 0,
        Break(_) => 1,
        Warning(_, _) => 2,
        Trace(_) => 3,
        ExtraIgnored => 4,
        Reenter => 5,
    }
}

impl System {
    fn new() -> System {
        System {
            adapter: JsInterpreter::new(),
            mirror: Interpreter::default(),
            mirror_error: None,
            problems: vec![],
            calls: 0,
            trapped: false,
        }
    }

    fn mirror_after_eval(&mut self, r: Result<(), abasic_core::TracedInterpreterError>, line: Option<&str>) {
        match r {
            Err(err) => {
                let mut lines = vec![err.to_string()];
                lines.extend(err.get_line_with_pointer_caret(&self.mirror, line));
                self.mirror_error = Some(lines.join("\n"));
            }
            Ok(()) => {
                if self.mirror.get_state() == InterpreterState::NewInterpreterRequested {
                    self.mirror = Interpreter::default();
                }
            }
        }
    }

    /// Executes one call of the page on the real adapter (and the mirror). Err = trap.
    fn handle(&mut self, method: &str, arg: &J) -> Result<J, String> {
        self.calls += 1;
        let a = &mut self.adapter;
        let s = arg.as_str().unwrap_or("").to_string();
        match method {
            "randomize" => {
                let seed: u64 = s.parse().unwrap_or(0);
                guarded(|| a.randomize(seed))?;
                self.mirror.randomize(seed);
                Ok(J::Null)
            }
            "provide_input" => {
                guarded(|| a.provide_input(s.clone()))?;
                let m = &mut self.mirror;
                let _ = guarded(|| m.provide_input(s.clone()));
                Ok(J::Null)
            }
            "break_at_current_location" => {
                guarded(|| a.break_at_current_location())?;
                let m = &mut self.mirror;
                let _ = guarded(|| m.break_at_current_location());
                Ok(J::Null)
            }
            "start_evaluating" => {
                guarded(|| a.start_evaluating(s.clone()))?;
                let m = &mut self.mirror;
                if let Ok(r) = guarded(|| m.start_evaluating(&s)) {
                    self.mirror_after_eval(r, Some(&s));
                }
                Ok(J::Null)
            }
            "continue_evaluating" => {
                guarded(|| a.continue_evaluating())?;
                let m = &mut self.mirror;
                if let Ok(r) = guarded(|| m.continue_evaluating()) {
                    self.mirror_after_eval(r, None);
                }
                Ok(J::Null)
            }
            "get_state" => {
                let got = guarded(|| a.get_state() as u32 as u64)?;
                let want = if self.mirror_error.is_some() { 3 } else { state_code(self.mirror.get_state()) };
                if got != want {
                    self.problems.push(("state differs from the core interpreter".into(), format!("adapter reports state {}, core interpreter implies {}", got, want)));
                }
                Ok(json!(got))
            }
            "take_latest_error" => {
                let got = guarded(|| a.take_latest_error())?;
                let want = self.mirror_error.take();
                if got != want {
                    self.problems.push(("error text differs from the core interpreter's rendering".into(), format!("adapter delivers {:?}; error text + source line + caret from the core interpreter: {:?}", got, want)));
                }
                Ok(match got {
                    Some(e) => json!(e),
                    None => J::Null,
                })
            }
            "take_latest_output" => {
                let got: Vec<(u64, String)> = guarded(|| a.take_latest_output().into_iter().map(|o| (o.output_type as u32 as u64, o.into_string())).collect())?;
                let want: Vec<(u64, String)> = self.mirror.take_output().into_iter().map(|o| (out_type_code(&o), o.to_string())).collect();
                if got != want {
                    self.problems.push(("output records differ from the core interpreter".into(), format!("adapter {:?}; core {:?}", got, want)));
                }
                Ok(J::Array(got.into_iter().map(|(t, v)| json!([t, v])).collect()))
            }
            other => Err(format!("unknown adapter method {}", other)),
        }
    }
}

impl Host {
    fn start() -> Host {
        let script = format!("{}/js/page_host.js", crate::VERIF_DIR);
        let node = if std::path::Path::new("/usr/bin/nodejs").exists() { "/usr/bin/nodejs" } else { "node" };
        let mut child = Command::new(node)
            .arg(&script)
            .arg(format!("{}/abasic-web/ts/main.ts", std::env::var("VERIF_REPO_DIR").unwrap_or_else(|_| "/repo".into())))
            .stdin(Stdio::piped())
            .stdout(Stdio::piped())
            .stderr(Stdio::null())
            .spawn()
            .unwrap_or_else(|e| machinery(&format!("cannot start node: {}", e)));
        let stdin = child.stdin.take().unwrap();
        let stdout = BufReader::new(child.stdout.take().unwrap());
        Host { child, stdin, stdout }
    }

    fn command(&mut self, cmd: J, sys: &mut System) -> Done {
        let line = format!("{}\n", cmd);
        if self.stdin.write_all(line.as_bytes()).is_err() || self.stdin.flush().is_err() {
            machinery("page host went away");
        }
        loop {
            let mut l = String::new();
            match self.stdout.read_line(&mut l) {
                Ok(0) | Err(_) => machinery("page host closed its output"),
                Ok(_) => {}
            }
            let m: J = serde_json::from_str(&l).unwrap_or_else(|_| machinery("page host sent malformed JSON"));
            if let Some(f) = m.get("fatal") {
                machinery(&format!("page host: {}", f));
            }
            if let Some(d) = m.get("done") {
                return Done {
                    threw: d["threw"].as_str().map(|s| s.to_string()),
                    timers: d["timers"].as_u64().unwrap_or(0),
                    input_disabled: d["inputDisabled"].as_bool().unwrap_or(false),
                    fully: d["fully"].as_bool().unwrap_or(false),
                    ready: d["ready"].as_bool().unwrap_or(false),
                    ui: d["ui"].as_array().map(|a| a.iter().map(|x| x.to_string()).collect()).unwrap_or_default(),
                };
            }
            let method = m["rpc"].as_str().unwrap_or("").to_string();
            let reply = match sys.handle(&method, &m["arg"]) {
                Ok(r) => json!({"reply": r}),
                Err(p) => {
                    sys.trapped = true;
                    sys.problems.push((format!("adapter trapped in {}: {}", method, short_panic(&p)), format!("{}({}) panicked: {}", method, m["arg"], p)));
                    json!({"trap": short_panic(&p)})
                }
            };
            let line = format!("{}\n", reply);
            if self.stdin.write_all(line.as_bytes()).is_err() || self.stdin.flush().is_err() {
                machinery("page host went away");
            }
        }
    }
}

impl Drop for Host {
    fn drop(&mut self) {
        let _ = self.stdin.write_all(b"{\"cmd\":\"quit\"}\n");
        let _ = self.child.kill();
        let _ = self.child.wait();
    }
}

static POOL: Mutex<Vec<Host>> = Mutex::new(vec![]);

fn with_host<T>(f: impl FnOnce(&mut Host) -> T) -> T {
    let h = POOL.lock().unwrap().pop();
    let mut h = h.unwrap_or_else(Host::start);
    let r = f(&mut h);
    POOL.lock().unwrap().push(h);
    r
}

#[derive(Clone, Debug, PartialEq, Eq, Hash)]
struct Canon {
    mirror: VerifState,
    errored: bool,
    fully: bool,
    timers: u64,
    input_disabled: bool,
}

struct Replayed {
    sys: System,
    last: Done,
    canon: Option<Canon>,
    script_threw: Option<String>,
}

/// Replays a start-up + event history on a fresh page and a fresh adapter.
fn replay(host: &mut Host, program: &Option<String>, evs: &[PEv]) -> Replayed {
    let mut sys = System::new();
    let mut last = host.command(json!({"cmd":"new","program":program}), &mut sys);
    let mut threw = last.threw.clone();
    if threw.is_none() {
        for e in evs {
            let cmd = match e {
                PEv::Submit(t) => json!({"cmd":"submit","text":t}),
                PEv::Break => json!({"cmd":"break"}),
                PEv::Tick => json!({"cmd":"tick"}),
            };
            last = host.command(cmd, &mut sys);
            if last.threw.is_some() {
                threw = last.threw.clone();
                break;
            }
        }
    }
    let canon = if threw.is_none() && !sys.trapped {
        Some(Canon { mirror: sys.mirror.verif_snapshot(), errored: sys.mirror_error.is_some(), fully: last.fully, timers: last.timers, input_disabled: last.input_disabled })
    } else {
        None
    };
    Replayed { sys, last, canon, script_threw: threw }
}

fn programs() -> Vec<(&'static str, Option<String>)> {
    vec![
        ("no program", None),
        ("well-formed", Some("10 PRINT \"hi\"\n20 X = 2\n30 PRINT X\n".into())),
        ("untokenizable line", Some("10 PRINT 1\n20 C% = 1\n30 PRINT 2\n".into())),
        ("unnumbered line", Some("10 PRINT 1\nPRINT 9\n20 PRINT 2\n".into())),
        ("blank lines and CRLF", Some("5 REM c\r\n10 PRINT 1\r\n\r\n20 PRINT 2\r\n".into())),
        ("awaits input", Some("10 INPUT A\n20 PRINT A*2\n".into())),
        ("awaits text", Some("10 INPUT A$\n20 PRINT A$;\"|\"\n".into())),
        ("ends in an error", Some("10 PRINT \"a\"\n20 PRINT 1/0\n".into())),
        ("loops forever", Some("10 X = X + 1\n20 GOTO 10\n".into())),
        ("stops", Some("10 PRINT 1\n20 STOP\n30 PRINT 2\n".into())),
        ("last line untokenizable", Some("10 PRINT 1\n20 PRINT \"WORLD\n".into())),
        ("only line untokenizable, no final newline", Some("10 %".into())),
        // long enough for one LIST to hand over dozens of records in a single call
        ("loop through line zero", Some("0 X = X + 1\n1 GOTO 0\n".into())),
        ("forty lines", Some((1..=40).map(|i| format!("{} PRINT {}\n", i * 10, i)).collect::<String>())),
    ]
}

/// A text that is no number (an unsuitable reply to a numeric INPUT, an unknown statement at
/// the prompt) and longer than any line buffer of old: 300 characters, some of them two bytes.
const LONG_TEXT: &str = "xxxxxxxxxxxxxxxxxxxxxxxxxxxxxxxxxxxxxxxxxxxxxxxxxxxxxxxxxxxxxxxxxxxxxxxxxxxxxxxxxxxxxxxxxxxxxxxxxxxxéxxxxxxxxxxxxxxxxxxxxxxxxxxxxxxxxxxxxxxxxxxxxxxxxxxxxxxxxxxxxxxxxxxxxxxxxxxxxxxxxxxxxxxxxxxxxxxxxxxxéxxxxxxxxxxxxxxxxxxxxxxxxxxxxxxxxxxxxxxxxxxxxxxxxxxxxxxxxxxxxxxxxxxxxxxxxxxxxxxxxxxxxxxxxxxxxxxxxxxxy";

fn alphabet() -> Vec<PEv> {
    let mut v: Vec<PEv> = ["PRINT 1", "10 PRINT 2", "RUN", "NEW", "LIST", "X=", "%", "5", LONG_TEXT, "💥", "", "CONT", "20 INPUT Q", "TRACE", "A = 1 : PRINT 1 / 0", "NEW 10", "30 REM S   ", "PRINT \"HI   ", "PRINT RND(1)", "PRINT \"\";: PRINT", "\u{a0}", " \u{b}"].iter().map(|t| PEv::Submit(t.to_string())).collect();
    v.push(PEv::Break);
    v.push(PEv::Tick);
    v
}

fn enabled(c: &Canon, ready: bool, e: &PEv) -> bool {
    match e {
        PEv::Submit(_) | PEv::Break => ready && !c.input_disabled,
        PEv::Tick => c.timers > 0,
    }
}

/// After NEW the adapter must behave like a freshly created one.
fn probe_fresh(sys: &mut System) -> Option<(String, String)> {
    let mut fresh = JsInterpreter::new();
    // a numbered program that reads an undeclared variable shows both option flags
    for line in ["PRINT X;A$;B(1)", "LIST", "PRINT RND(1)", "CONT", "10 PRINT Q9: Z(1)=1", "RUN"] {
        let obs = |j: &mut JsInterpreter| {
            let l = line.to_string();
            guarded(|| {
                j.start_evaluating(l);
                let mut out: Vec<(u32, String)> = j.take_latest_output().into_iter().map(|o| (o.output_type as u32, o.into_string())).collect();
                let mut err = j.take_latest_error();
                let mut turns = 0;
                while err.is_none() && j.get_state() as u32 == 1 && turns < 50 {
                    j.continue_evaluating();
                    out.extend(j.take_latest_output().into_iter().map(|o| (o.output_type as u32, o.into_string())));
                    err = j.take_latest_error();
                    turns += 1;
                }
                let st = j.get_state() as u32;
                (out, err, st)
            })
        };
        let a = obs(&mut sys.adapter);
        let b = obs(&mut fresh);
        if a != b {
            return Some(("after NEW the adapter differs from a fresh one".into(), format!("probe {:?}: after NEW {:?}; fresh adapter {:?}", line, a, b)));
        }
    }
    None
}

pub fn run(thorough: bool) -> Report {
    let mut rep = Report::new("C19", "model_checking");
    let depth = if thorough { 10 } else { 6 };
    let alpha = alphabet();
    let progs = programs();
    let max_timers = 2u64;
    let mut seen: HashSet<Canon> = HashSet::new();
    // frontier: (program index, events, canon, ready)
    let mut frontier: Vec<(usize, Vec<PEv>, Canon, bool)> = vec![];
    let mut violations: Vec<Violation> = vec![];
    let mut transitions = 0u64;
    let mut adapter_calls = 0u64;
    let mut pruned = 0u64;
    let mut outcome: BTreeMap<String, u64> = BTreeMap::new();
    let mut per_layer = vec![];
    let case = |pi: usize, evs: &[PEv], progs: &Vec<(&'static str, Option<String>)>| json!({"kind":"page","program_loaded_at_startup": progs[pi].1, "events": evs.iter().map(pev_json).collect::<Vec<_>>()});

    // determinism self-test + roots
    for (pi, (name, prog)) in progs.iter().enumerate() {
        let a = with_host(|h| replay(h, prog, &[]));
        let b = with_host(|h| replay(h, prog, &[]));
        if a.canon != b.canon || a.last.ui != b.last.ui {
            machinery("page start-up is not deterministic");
        }
        transitions += 1;
        adapter_calls += a.sys.calls;
        for (sig, detail) in &a.sys.problems {
            violations.push(Violation { signature: format!("{} [start-up: {}]", sig, name), detail: detail.clone(), case: case(pi, &[], &progs) });
        }
        if let Some(t) = &a.script_threw {
            if !a.sys.trapped {
                violations.push(Violation { signature: format!("page script threw at start-up [{}]", name), detail: t.clone(), case: case(pi, &[], &progs) });
            }
            *outcome.entry("start-up aborted".into()).or_insert(0) += 1;
            continue;
        }
        if let Some(c) = a.canon {
            if seen.insert(c.clone()) {
                frontier.push((pi, vec![], c, a.last.ready));
            }
        }
    }
    per_layer.push(frontier.len());
    let mut layers = 0;
    for _d in 0..depth {
        if frontier.is_empty() {
            break;
        }
        struct Out {
            pi: usize,
            evs: Vec<PEv>,
            canon: Option<Canon>,
            ready: bool,
            problems: Vec<(String, String)>,
            threw: Option<String>,
            trapped: bool,
            calls: u64,
            class: String,
        }
        let work: Vec<(usize, Vec<PEv>, PEv)> = frontier
            .iter()
            .flat_map(|(pi, evs, c, ready)| alpha.iter().filter(move |e| enabled(c, *ready, e)).map(move |e| (*pi, evs.clone(), e.clone())))
            .collect();
        let outs: Vec<Out> = work
            .par_iter()
            .map(|(pi, evs, e)| {
                let mut h = evs.clone();
                h.push(e.clone());
                let mut r = with_host(|host| replay(host, &progs[*pi].1, &h));
                let mut problems = std::mem::take(&mut r.sys.problems);
                if r.canon.is_some() && *e == PEv::Submit("NEW".into()) && r.sys.mirror.get_state() == InterpreterState::Idle && r.sys.mirror_error.is_none() {
                    if r.sys.mirror.verif_snapshot() != Interpreter::default().verif_snapshot() {
                        problems.push(("after NEW the core interpreter is not in its initial state".into(), format!("{:?}", r.sys.mirror.verif_snapshot())));
                    }
                    if let Some(p) = probe_fresh(&mut r.sys) {
                        problems.push(p);
                    }
                }
                let class = match (&r.script_threw, r.sys.trapped) {
                    (_, true) => "trap".to_string(),
                    (Some(_), _) => "page script threw".to_string(),
                    _ => format!("state {} timers {} disabled {}", if r.canon.as_ref().map(|c| c.errored).unwrap_or(false) { "errored".into() } else { r.canon.as_ref().map(|c| c.mirror.state.clone()).unwrap_or_default() }, r.last.timers, r.last.input_disabled),
                };
                Out { pi: *pi, evs: h, canon: r.canon, ready: r.last.ready, problems, threw: r.script_threw, trapped: r.sys.trapped, calls: r.sys.calls, class }
            })
            .collect();
        let mut next = vec![];
        for o in outs {
            transitions += 1;
            adapter_calls += o.calls;
            *outcome.entry(o.class.clone()).or_insert(0) += 1;
            for (sig, detail) in &o.problems {
                violations.push(Violation { signature: sig.clone(), detail: detail.clone(), case: case(o.pi, &o.evs, &progs) });
            }
            if let Some(t) = &o.threw {
                if !o.trapped && !t.starts_with("harness error") {
                    violations.push(Violation { signature: format!("page script threw: {}", truncate(t, 80)), detail: t.clone(), case: case(o.pi, &o.evs, &progs) });
                }
                if t.starts_with("harness error") {
                    machinery(t);
                }
                continue;
            }
            if let Some(c) = o.canon {
                if c.timers > max_timers {
                    pruned += 1;
                    continue;
                }
                if seen.insert(c.clone()) {
                    next.push((o.pi, o.evs, c, o.ready));
                }
            }
        }
        layers += 1;
        per_layer.push(next.len());
        frontier = next;
    }
    POOL.lock().unwrap().clear();
    if outcome.len() < 3 {
        machinery("vacuous: too few outcome classes");
    }
    let mut seen_sig = HashSet::new();
    violations.sort_by_key(|v| v.case["events"].as_array().map(|a| a.len()).unwrap_or(0));
    for v in violations {
        rep.violating_cases += 1;
        if seen_sig.insert(v.signature.clone()) {
            rep.violations.push(v);
        }
    }
    rep.coverage = json!({
        "states": seen.len(),
        "transitions": transitions,
        "traces_validated_against_impl": transitions,
        "adapter_calls_executed": adapter_calls,
        "layers_completed": layers,
        "states_per_layer": per_layer,
        "frontier_emptied": frontier.is_empty(),
        "depth_bound": depth,
        "startup_programs": progs.iter().map(|p| p.0).collect::<Vec<_>>(),
        "events": alpha.iter().map(pev_json).collect::<Vec<_>>(),
        "transitions_pruned_more_than_two_timers": pruned,
        "outcome_classes": outcome,
        "exhaustive": true,
        "samples": [{"program_loaded_at_startup": "10 PRINT 1\n20 C% = 1\n30 PRINT 2\n", "events": ["timer tick", {"submit": "RUN"}]}],
    });
    rep.assumptions = vec![
        "the page script is the real main.ts with its type annotations removed by 12 literal rewrites (js/page_host.js), run under node's vm; the DOM layer ui.ts is stubbed".into(),
        "at most two page timers pending at once; hidden page state other than isFullyInteractive, timers and the disabled flag is not part of the state key".into(),
    ];
    rep
}
