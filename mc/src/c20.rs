//! C20 — the language server survives any document and reports in-bounds positions.
//! The `abasic-lsp` binary built from /repo is driven over stdio with JSON-RPC; every
//! open / change / semantic-token history over the document set is replayed and compared
//! with the analyzer run in-process (byte offsets converted to UTF-16 columns here).

use crate::common::*;
use abasic_core::{DiagnosticMessage, SourceFileAnalyzer};
use rayon::prelude::*;
use serde_json::{json, Value as J};
use std::collections::{BTreeMap, HashSet};
use std::io::{BufRead, BufReader, Read, Write};
use std::process::{Child, ChildStdin, Command, Stdio};
use std::sync::mpsc::{channel, Receiver};
use std::time::Duration;

struct Lsp {
    child: Child,
    stdin: ChildStdin,
    rx: Receiver<J>,
    next_id: u64,
    /// number of token types in the legend the server advertised in its initialize response
    legend_len: u64,
    /// the position encoding the server announced (absent = UTF-16, as the protocol says)
    utf8_positions: bool,
}

impl Lsp {
    /// `flavor` 0: a client that declares no capabilities; 1: a client that lists the token
    /// types it knows (six of the standard ones).
    fn start(bin: &str, flavor: u8) -> Result<Lsp, String> {
        let mut child = Command::new(bin)
            .env("RUST_BACKTRACE", "0")
            .stdin(Stdio::piped())
            .stdout(Stdio::piped())
            .stderr(Stdio::null())
            .spawn()
            .map_err(|e| format!("cannot start {}: {}", bin, e))?;
        let stdin = child.stdin.take().unwrap();
        let stdout = child.stdout.take().unwrap();
        let (tx, rx) = channel();
        std::thread::spawn(move || {
            let mut r = BufReader::new(stdout);
            loop {
                let mut len = 0usize;
                loop {
                    let mut line = String::new();
                    match r.read_line(&mut line) {
                        Ok(0) | Err(_) => return,
                        Ok(_) => {}
                    }
                    let l = line.trim();
                    if l.is_empty() {
                        break;
                    }
                    if let Some(v) = l.strip_prefix("Content-Length:") {
                        len = v.trim().parse().unwrap_or(0);
                    }
                }
                let mut buf = vec![0u8; len];
                if r.read_exact(&mut buf).is_err() {
                    return;
                }
                if let Ok(j) = serde_json::from_slice::<J>(&buf) {
                    if tx.send(j).is_err() {
                        return;
                    }
                }
            }
        });
        let mut l = Lsp { child, stdin, rx, next_id: 1, legend_len: 8, utf8_positions: false };
        let caps = if flavor == 0 {
            json!({})
        } else if flavor == 2 {
            json!({"general": {"positionEncodings": ["utf-8", "utf-16"]}})
        } else {
            json!({"textDocument": {"semanticTokens": {"requests": {"full": true}, "tokenTypes": ["variable", "string", "number", "operator", "comment", "keyword"], "tokenModifiers": [], "formats": ["relative"]}}})
        };
        let id = l.request("initialize", json!({"processId": null, "rootUri": null, "capabilities": caps}))?;
        match l.wait(|m| m["id"] == json!(id), 10000) {
            None => return Err("no response to initialize".into()),
            Some(r) => {
                if let Some(t) = r["result"]["capabilities"]["semanticTokensProvider"]["legend"]["tokenTypes"].as_array() {
                    l.legend_len = t.len() as u64;
                }
                l.utf8_positions = r["result"]["capabilities"]["positionEncoding"] == json!("utf-8");
            }
        }
        l.notify("initialized", json!({}))?;
        Ok(l)
    }

    fn send(&mut self, m: &J) -> Result<(), String> {
        let body = serde_json::to_vec(m).unwrap();
        let head = format!("Content-Length: {}\r\n\r\n", body.len());
        self.stdin.write_all(head.as_bytes()).map_err(|e| e.to_string())?;
        self.stdin.write_all(&body).map_err(|e| e.to_string())?;
        self.stdin.flush().map_err(|e| e.to_string())
    }

    fn request(&mut self, method: &str, params: J) -> Result<u64, String> {
        let id = self.next_id;
        self.next_id += 1;
        self.send(&json!({"jsonrpc":"2.0","id":id,"method":method,"params":params}))?;
        Ok(id)
    }

    fn notify(&mut self, method: &str, params: J) -> Result<(), String> {
        self.send(&json!({"jsonrpc":"2.0","method":method,"params":params}))
    }

    fn wait(&mut self, pred: impl Fn(&J) -> bool, ms: u64) -> Option<J> {
        let deadline = std::time::Instant::now() + Duration::from_millis(ms);
        loop {
            let left = deadline.saturating_duration_since(std::time::Instant::now());
            match self.rx.recv_timeout(left) {
                Ok(m) => {
                    if pred(&m) {
                        return Some(m);
                    }
                }
                Err(_) => return None,
            }
        }
    }

    fn shutdown(mut self) -> Option<i32> {
        if let Ok(id) = self.request("shutdown", J::Null) {
            let _ = self.wait(|m| m["id"] == json!(id), 3000);
        }
        let _ = self.notify("exit", J::Null);
        drop(self.stdin);
        for _ in 0..300 {
            if let Ok(Some(st)) = self.child.try_wait() {
                return st.code();
            }
            std::thread::sleep(Duration::from_millis(10));
        }
        let _ = self.child.kill();
        let _ = self.child.wait();
        None
    }
}

fn utf16_len(s: &str) -> u64 {
    s.encode_utf16().count() as u64
}

fn col(line: &str, byte: usize) -> u64 {
    let mut b = byte.min(line.len());
    while !line.is_char_boundary(b) {
        b -= 1;
    }
    utf16_len(&line[..b])
}

/// What the protocol prescribes for `text`: diagnostics as (severity, message, line, start,
/// end) in UTF-16 columns and semantic tokens as (line, start, length, type).
fn expected(text: &str) -> Result<(Vec<(u64, String, u64, u64, u64)>, Vec<(u64, u64, u64, u64)>), String> {
    let t = text.to_string();
    guarded(move || {
        let a = SourceFileAnalyzer::analyze(t.clone());
        let lines: Vec<&str> = t.split('\n').collect();
        let mut d = vec![];
        for m in a.messages() {
            if let Some((line, r)) = a.source_file_map().map_to_source(m) {
                let (sev, msg) = match m {
                    DiagnosticMessage::Warning(_, _, s) => (2u64, s.clone()),
                    DiagnosticMessage::Error(_, e) => (1u64, e.to_string()),
                };
                let src = lines.get(line).copied().unwrap_or("");
                d.push((sev, msg, line as u64, col(src, r.start), col(src, r.end)));
            }
        }
        d.sort();
        let mut toks = vec![];
        for (i, l) in a.token_types().iter().enumerate() {
            let src = lines.get(i).copied().unwrap_or("");
            for (ty, r) in l {
                let tyi = match format!("{:?}", ty).as_str() {
                    "Symbol" => 0,
                    "String" => 1,
                    "Number" => 2,
                    "Operator" => 3,
                    "Comment" => 4,
                    "Keyword" => 5,
                    "Delimiter" => 6,
                    _ => 7,
                };
                toks.push((i as u64, col(src, r.start), col(src, r.end) - col(src, r.start), tyi));
            }
        }
        (d, toks)
    })
}

fn check_diagnostics(text: &str, msg: &J) -> Option<(String, String)> {
    let lines: Vec<&str> = text.split('\n').collect();
    let Some(diags) = msg["params"]["diagnostics"].as_array() else {
        return Some(("malformed publishDiagnostics".into(), msg.to_string()));
    };
    let mut got = vec![];
    for d in diags {
        let sl = d["range"]["start"]["line"].as_u64().unwrap_or(u64::MAX);
        let sc = d["range"]["start"]["character"].as_u64().unwrap_or(u64::MAX);
        let el = d["range"]["end"]["line"].as_u64().unwrap_or(u64::MAX);
        let ec = d["range"]["end"]["character"].as_u64().unwrap_or(u64::MAX);
        let Some(src) = lines.get(sl as usize) else {
            return Some(("diagnostic on a line outside the document".into(), d.to_string()));
        };
        if sl != el || sc > ec || ec > utf16_len(src) {
            return Some((
                "diagnostic range outside its line (UTF-16 units)".into(),
                format!("range {}:{}-{}:{} on line {:?} of {} UTF-16 units: {}", sl, sc, el, ec, src, utf16_len(src), d["message"]),
            ));
        }
        got.push((d["severity"].as_u64().unwrap_or(0), d["message"].as_str().unwrap_or("").to_string(), sl, sc, ec));
    }
    got.sort();
    match expected(text) {
        Ok((want, _)) => {
            if got != want {
                return Some(("diagnostics differ from the analyzer's messages".into(), format!("server {:?}; analyzer (UTF-16 columns) {:?}", got, want)));
            }
            None
        }
        Err(_) => None, // analyzer itself fails in-process: C05's concern
    }
}

fn check_tokens(text: &str, msg: &J, legend_len: u64) -> Option<(String, String)> {
    let lines: Vec<&str> = text.split('\n').collect();
    if !msg["error"].is_null() {
        return Some(("semantic tokens request failed".into(), msg.to_string()));
    }
    let Some(data) = msg["result"]["data"].as_array() else {
        return Some(("malformed semantic tokens response".into(), msg.to_string()));
    };
    if data.len() % 5 != 0 {
        return Some(("semantic token data not a multiple of 5".into(), msg.to_string()));
    }
    let mut line = 0u64;
    let mut start = 0u64;
    let mut got = vec![];
    let mut prev_end: Option<(u64, u64)> = None;
    for c in data.chunks(5) {
        let v: Vec<u64> = c.iter().map(|x| x.as_u64().unwrap_or(u64::MAX)).collect();
        if v[0] > 0 {
            line += v[0];
            start = v[1];
        } else {
            start += v[1];
        }
        let len = v[2];
        let Some(src) = lines.get(line as usize) else {
            return Some(("semantic token on a line outside the document".into(), format!("line {}", line)));
        };
        if v[3] >= legend_len {
            return Some(("semantic token type outside the advertised legend".into(), format!("{:?} with a legend of {} types", v, legend_len)));
        }
        if len == 0 || start + len > utf16_len(src) {
            return Some(("semantic token outside its line (UTF-16 units)".into(), format!("token at {}:{} length {} on line {:?} of {} units", line, start, len, src, utf16_len(src))));
        }
        if let Some((pl, pe)) = prev_end {
            if pl == line && start < pe {
                return Some(("semantic tokens overlap".into(), format!("token at {}:{} starts before {}", line, start, pe)));
            }
        }
        prev_end = Some((line, start + len));
        got.push((line, start, len, v[3]));
    }
    match expected(text) {
        Ok((_, want)) => {
            if got != want {
                return Some(("semantic tokens differ from the analyzer's token ranges".into(), format!("server {:?}; analyzer (UTF-16 columns) {:?}", got, want)));
            }
            None
        }
        Err(_) => None,
    }
}

fn documents(thorough: bool) -> (Vec<String>, Vec<String>) {
    let menu = crate::c05::line_menu();
    let mut docs: Vec<String> = vec![];
    let n = if thorough { 3 } else { 2 };
    for len in 1..=n {
        for i in 0..crate::gen::pow(menu.len() as u64, len) {
            let ls: Vec<&str> = crate::gen::decode_seq(i, menu.len() as u64, len).iter().map(|k| menu[*k]).collect();
            docs.push(ls.join("\n"));
            if len >= 2 {
                // the same lines with CR LF line ends (and a final one)
                docs.push(format!("{}\r\n", ls.join("\r\n")));
            }
        }
    }
    let non_ascii = vec![
        "10 PRINT \"é\"", "10 PRINT \"😊\" + 1", "10 REM é😊 x", "10 DATA é, \"😊\", 3", "10 é", "10 X = 1 é", "10 PRINT \"é\": GOTO 99",
        "10 PRINT \"😊\": X$ = 1", "20 PRINT \"é\" + 1", "10 A$ = \"é\": B = A$", "é", "😊 10 X = 1", "10 PRINT \"😊😊\";Q😊", "10 PRINT \"é",
        "10 \"é\" %", "10 PRINT \"é\" +", "10 X$ = \"😊\": Y = X$ + 1: Z = 2", "10 IF \"é\" THEN 99", "10 READ A\n20 DATA \"é\", é", "10 PRINT \"é\"\n10 PRINT \"😊\" + 1",
        "10 REM 😊\n20 GOTO 30", "10 DIM A$(2): A$(1) = \"é\": B = A$(1)", "10 DEF FNA(X) = \"é\"\n20 Y = FNA(1) + \"😊\"", "10 PRINT \"a\";\"é\";1 +", "10 FOR I = \"é\" TO 2",
        "10 X = \"😊\"", "10 PRINT \"é\"\r\n20 X$ = 1\r", " 10 PRINT \"é\" + 1", "10 INPUT é", "10 GOSUB 10: PRINT \"😊\" + Q$ + 1",
        "10 ? \"é\";: ? \"😊\" + 1", "10 NEXT é", "10 PRINT \"😊\"\n\n30 PRINT \"é\" + 1", "10 LET Z$ = \"é\" + \"😊\": LET Z = Z$", "10 PRINT NOT \"é\" + \"😊\"",
        "10 PRINT \"é\" = \"😊\" + 1", "10 DATA 😊:PRINT 1 +", "10 REM é\n10", "10 PRINT \"😊\" + 1\n10 PRINT \"", "10 IF 1 THEN PRINT \"é\" ELSE PRINT \"😊\" + 1",
        // one UTF-16 unit, three UTF-8 bytes (U+0800..U+FFFF): CJK, euro sign, dashes, curly quotes
        "10 PRINT ((((((((((((((((((((((((((((((((((((((((((((((((((((((((((((((((((((((1))))))))))))))))))))))))))))))))))))))))))))))))))))))))))))))))))))))", "10 IF 1 THEN IF 1 THEN X = A(A(A(A(A(A(A(A(A(A(A(A(A(A(A(A(A(A(A(A(A(A(A(A(A(A(A(A(A(A(A(A(A(A(A(A(A(A(A(A(A(A(A(A(A(A(A(A(A(A(A(A(A(A(A(A(A(A(A(A(A(A(A(A(A(A(1))))))))))))))))))))))))))))))))))))))))))))))))))))))))))))))))))",
        "\u{feff}10 PRINT \"a\" + 1\n20 X$ = 1", "10\u{a0}PRINT 1 +", "\u{ff11}\u{ff10} PRINT 1\n10 PRINT \"\u{e9}\" + 1", "10 PRINT 1\u{c}+ \"a\"", "\u{3000}10 X$ = 1", "10 X = 1\u{2028}20 Y$ = 2",
        "10 PRINT \"日本語\" + 1", "10 REM 価格 € — x\n20 X$ = 1", "10 DATA 日本, \"€\", 3: PRINT 1 +", "10 PRINT \"“q”\";Z€", "10 PRINT \"末尾", "10 A$ = \"ꙮ\": B = A$ + \"\u{ffff}\" + 1",
    ];
    docs.extend(non_ascii.iter().map(|s| s.to_string()));
    // documents with more than a hundred messages
    for k in [99usize, 100, 101, 150, 260] {
        docs.push(format!("{}9000 PRINT QQ", "PRINT 1\n".repeat(k)));
        docs.push(format!("{}9000 PRINT \"\u{e9}\" + 1", "10 X$ = 1\n".repeat(k)));
    }
    // long runs of multi-byte characters at every alignment: whatever fixed byte offset a server
    // cuts a preview, a log line or a buffer at, some document has a character across it
    for (ch, w) in [("\u{e9}", 2usize), ("\u{65e5}", 3), ("\u{1f60a}", 4)] {
        for pad in 0..w {
            docs.push(format!("10 REM {}{}", "x".repeat(pad), ch.repeat(1200 / w)));
            docs.push(format!("10 X = 1\n20 PRINT \"{}{}\" + 1", "x".repeat(pad), ch.repeat(1200 / w)));
        }
    }
    let core: Vec<String> = menu
        .iter()
        .take(22)
        .map(|s| s.to_string())
        .chain(non_ascii.iter().take(8).map(|s| s.to_string()))
        .chain(non_ascii.iter().rev().take(3).map(|s| s.to_string()))
        .collect();
    (docs, core)
}

#[derive(Clone)]
enum Msg {
    Open(String),
    Change(String),
    /// one didChange notification carrying several full-text changes: the last one counts
    ChangeMulti(Vec<String>),
    Tokens,
    /// didOpen of another document whose URI differs from this history's only in letter case
    OpenOther(String),
    /// tokens of this history's own document, after the other one was opened
    TokensOwn,
    /// written back to back without waiting for any answer: a change of this document, a change of
    /// the other document, a token request for this document (texts: own, other)
    Pipelined(String, String),
}

/// Runs one history on a (possibly fresh) server; returns problems and message count.
fn run_history(lsp: &mut Option<Lsp>, bin: &str, uri: &str, hist: &[Msg], flavor: u8) -> (u64, Option<(String, String, bool)>) {
    let mut own = String::new();
    let mut sent = 0u64;
    let mut latest = String::new();
    for m in hist {
        if lsp.is_none() {
            match Lsp::start(bin, flavor) {
                Ok(l) => *lsp = Some(l),
                Err(e) => machinery(&e),
            }
        }
        let l = lsp.as_mut().unwrap();
        sent += 1;
        let res: Result<Option<(String, String)>, String> = (|| match m {
            Msg::OpenOther(t) => {
                own = latest.clone();
                let other = uri.to_uppercase().replace("FILE:", "file:");
                l.notify("textDocument/didOpen", json!({"textDocument":{"uri":other,"languageId":"abasic","version":1,"text":t}}))?;
                match l.wait(|x| x["method"] == "textDocument/publishDiagnostics" && x["params"]["uri"] == other, 8000) {
                    Some(d) => Ok(check_diagnostics(t, &d)),
                    None => Err("no diagnostics after didOpen of the second document".into()),
                }
            }
            Msg::TokensOwn => {
                let id = l.request("textDocument/semanticTokens/full", json!({"textDocument":{"uri":uri}}))?;
                let ll = l.legend_len;
                match l.wait(|x| x["id"] == json!(id), 8000) {
                    Some(r) => Ok(check_tokens(&own, &r, ll).map(|(s, d)| (format!("after another document was opened: {}", s), d))),
                    None => Err("no response to semanticTokens/full".into()),
                }
            }
            Msg::Pipelined(mine, theirs) => {
                latest = mine.clone();
                own = mine.clone();
                let other = uri.to_uppercase().replace("FILE:", "file:");
                l.notify("textDocument/didChange", json!({"textDocument":{"uri":uri,"version":3},"contentChanges":[{"text":mine}]}))?;
                l.notify("textDocument/didChange", json!({"textDocument":{"uri":other,"version":3},"contentChanges":[{"text":theirs}]}))?;
                let id = l.request("textDocument/semanticTokens/full", json!({"textDocument":{"uri":uri}}))?;
                // everything up to the token response (the server answers in order)
                let mut got: Vec<J> = vec![];
                let deadline = std::time::Instant::now() + Duration::from_millis(8000);
                let mut tokens: Option<J> = None;
                while tokens.is_none() {
                    let left = deadline.saturating_duration_since(std::time::Instant::now());
                    match l.rx.recv_timeout(left) {
                        Ok(m) => {
                            if m["id"] == json!(id) {
                                tokens = Some(m);
                            } else {
                                got.push(m);
                            }
                        }
                        Err(_) => break,
                    }
                }
                let Some(tokens) = tokens else { return Err("no response to semanticTokens/full after two pipelined changes".into()) };
                let ll = l.legend_len;
                let mine_diag = got.iter().rev().find(|x| x["method"] == "textDocument/publishDiagnostics" && x["params"]["uri"] == *uri);
                let their_diag = got.iter().rev().find(|x| x["method"] == "textDocument/publishDiagnostics" && x["params"]["uri"] == other);
                if l.utf8_positions && !(mine.is_ascii() && theirs.is_ascii()) {
                    return Ok(None);
                }
                match (mine_diag, their_diag) {
                    (None, _) => Ok(Some(("a change followed at once by a change of another document is never answered".to_string(), format!("didChange({:?}) for {} got no publishDiagnostics before the token response; received {:?}", mine, uri, got.iter().map(|x| x["method"].clone()).collect::<Vec<_>>())))),
                    (_, None) => Ok(Some(("a change written right behind another one is never answered".to_string(), format!("didChange({:?}) for {} got no publishDiagnostics", theirs, other)))),
                    (Some(a), Some(b)) => Ok(check_diagnostics(mine, a).or_else(|| check_diagnostics(theirs, b)).or_else(|| check_tokens(mine, &tokens, ll)).map(|(s, d)| (format!("after pipelined changes: {}", s), d))),
                }
            }
            Msg::Open(t) if l.utf8_positions && !t.is_ascii() => {
                // the server announced UTF-8 positions (it may, when the client offers them): this
                // driver only decodes UTF-16, so only liveness is checked for non-ASCII text
                latest = t.clone();
                l.notify("textDocument/didOpen", json!({"textDocument":{"uri":uri,"languageId":"abasic","version":1,"text":t}}))?;
                match l.wait(|x| x["method"] == "textDocument/publishDiagnostics" && x["params"]["uri"] == uri, 8000) {
                    Some(_) => Ok(None),
                    None => Err("no diagnostics after didOpen".into()),
                }
            }
            Msg::Open(t) => {
                latest = t.clone();
                l.notify("textDocument/didOpen", json!({"textDocument":{"uri":uri,"languageId":"abasic","version":1,"text":t}}))?;
                match l.wait(|x| x["method"] == "textDocument/publishDiagnostics" && x["params"]["uri"] == uri, 8000) {
                    Some(d) => Ok(check_diagnostics(t, &d)),
                    None => Err("no diagnostics after didOpen".into()),
                }
            }
            Msg::Change(t) => {
                latest = t.clone();
                l.notify("textDocument/didChange", json!({"textDocument":{"uri":uri,"version":2},"contentChanges":[{"text":t}]}))?;
                match l.wait(|x| x["method"] == "textDocument/publishDiagnostics" && x["params"]["uri"] == uri, 8000) {
                    Some(d) => Ok(check_diagnostics(t, &d)),
                    None => Err("no diagnostics after didChange".into()),
                }
            }
            Msg::ChangeMulti(ts) => {
                latest = ts.last().cloned().unwrap_or_default();
                let changes: Vec<J> = ts.iter().map(|t| json!({"text": t})).collect();
                l.notify("textDocument/didChange", json!({"textDocument":{"uri":uri,"version":2},"contentChanges":changes}))?;
                match l.wait(|x| x["method"] == "textDocument/publishDiagnostics" && x["params"]["uri"] == uri, 8000) {
                    Some(d) => Ok(check_diagnostics(&latest, &d)),
                    None => Err("no diagnostics after didChange".into()),
                }
            }
            Msg::Tokens if l.utf8_positions && !latest.is_ascii() => {
                let id = l.request("textDocument/semanticTokens/full", json!({"textDocument":{"uri":uri}}))?;
                match l.wait(|x| x["id"] == json!(id), 8000) {
                    Some(_) => Ok(None),
                    None => Err("no response to semanticTokens/full".into()),
                }
            }
            Msg::Tokens => {
                let id = l.request("textDocument/semanticTokens/full", json!({"textDocument":{"uri":uri}}))?;
                let ll = l.legend_len;
                match l.wait(|x| x["id"] == json!(id), 8000) {
                    Some(r) => Ok(check_tokens(&latest, &r, ll)),
                    None => Err("no response to semanticTokens/full".into()),
                }
            }
        })();
        match res {
            Ok(None) => {}
            Ok(Some((sig, detail))) => return (sent, Some((sig, detail, false))),
            Err(e) => {
                // server dead or wedged: attribute to this message, restart
                let mut dead = lsp.take().unwrap();
                let status = dead.child.try_wait().ok().flatten();
                let _ = dead.child.kill();
                let _ = dead.child.wait();
                return (sent, Some((format!("server did not answer: {}", e), format!("{} (process status {:?}) for document {:?}", e, status, latest), true)));
            }
        }
    }
    (sent, None)
}

pub fn run(thorough: bool) -> Report {
    let mut rep = Report::new("C20", "exploration");
    let bin_dir = std::env::var("VERIF_REPO_BIN").unwrap_or_else(|_| "/verif/target/repo/release".into());
    let bin = format!("{}/abasic-lsp", bin_dir);
    if !std::path::Path::new(&bin).exists() {
        machinery(&format!("{} not built", bin));
    }
    let (docs, core) = documents(thorough);
    let mut hists: Vec<Vec<Msg>> = vec![];
    for d in &docs {
        hists.push(vec![Msg::Open(d.clone()), Msg::Tokens]);
    }
    for a in &core {
        for b in &core {
            hists.push(vec![Msg::Open(a.clone()), Msg::Change(b.clone()), Msg::Tokens]);
        }
    }
    // the same document opened again with different text (editors do this after a reload)
    for a in core.iter().step_by(2) {
        for b in core.iter().skip(1).step_by(2) {
            hists.push(vec![Msg::Open(a.clone()), Msg::Tokens, Msg::Open(b.clone()), Msg::Tokens]);
        }
    }
    // changes that only append or remove whole lines at the end
    for a in core.iter().step_by(2) {
        for b in core.iter().skip(1).step_by(3) {
            let longer = format!("{}\n{}", a, b);
            hists.push(vec![Msg::Open(a.clone()), Msg::Change(longer.clone()), Msg::Tokens, Msg::Change(a.clone()), Msg::Tokens, Msg::Change(format!("{}\n", longer)), Msg::Tokens]);
        }
    }
    // a second document whose URI differs only in letter case
    for a in core.iter().step_by(3) {
        for b in core.iter().skip(1).step_by(3) {
            hists.push(vec![Msg::Open(a.clone()), Msg::Tokens, Msg::OpenOther(b.clone()), Msg::TokensOwn]);
        }
    }
    // a change notification for a document that was never opened is a document like any other
    for a in core.iter().step_by(2) {
        hists.push(vec![Msg::Change(a.clone()), Msg::Tokens, Msg::Change(format!("{}\n{}", a, a)), Msg::Tokens]);
    }
    // a client that does not wait for answers: changes of two documents and a token request in one go
    for a in core.iter().step_by(4) {
        for b in core.iter().skip(2).step_by(5) {
            hists.push(vec![Msg::Open(a.clone()), Msg::OpenOther(b.clone()), Msg::Pipelined(format!("{}\n{}", b, a), a.clone()), Msg::Tokens]);
        }
    }
    // one change notification with two or three full texts
    {
        let c8: Vec<&String> = core.iter().step_by(4).take(8).collect();
        for a in &c8 {
            for b in &c8 {
                for c in &c8 {
                    hists.push(vec![Msg::Open((*a).clone()), Msg::ChangeMulti(vec![(*b).clone(), (*c).clone()]), Msg::Tokens]);
                }
            }
        }
        for a in c8.iter().take(4) {
            for b in c8.iter().skip(2).take(4) {
                hists.push(vec![Msg::Open((*a).clone()), Msg::ChangeMulti(vec![(*b).clone(), (*a).clone(), (*b).clone()]), Msg::Tokens, Msg::ChangeMulti(vec![(*a).clone()]), Msg::Tokens]);
            }
        }
    }
    if thorough {
        let c12: Vec<&String> = core.iter().step_by(3).take(12).collect();
        for a in &c12 {
            for b in &c12 {
                for c in &c12 {
                    hists.push(vec![Msg::Open((*a).clone()), Msg::Tokens, Msg::Change((*b).clone()), Msg::Change((*c).clone()), Msg::Tokens]);
                }
            }
        }
    }
    let nh = hists.len();
    let results: Vec<(u64, Vec<(String, String, usize)>, u64, Vec<Option<i32>>)> = hists
        .par_chunks(64)
        .enumerate()
        .map(|(ci, chunk)| {
            let mut lsp: Option<Lsp> = None;
            let mut sent = 0u64;
            let mut out = vec![];
            let mut crashes = 0u64;
            let mut exits = vec![];
            for (hi, h) in chunk.iter().enumerate() {
                let uri = format!("file:///c{}h{}.bas", ci, hi);
                let (n, p) = run_history(&mut lsp, &bin, &uri, h, (ci % 3) as u8);
                sent += n;
                if let Some((sig, detail, crashed)) = p {
                    if crashed {
                        crashes += 1;
                    }
                    out.push((sig, detail, ci * 64 + hi));
                }
            }
            if let Some(l) = lsp {
                exits.push(l.shutdown());
            }
            (sent, out, crashes, exits)
        })
        .collect();
    let mut sent = 0u64;
    let mut crashes = 0u64;
    let mut by_sig: BTreeMap<String, (u64, usize, String)> = BTreeMap::new();
    let mut bad_exit = 0;
    for (n, v, c, exits) in results {
        sent += n;
        crashes += c;
        for e in exits {
            if e != Some(0) {
                bad_exit += 1;
            }
        }
        for (sig, detail, hi) in v {
            let e = by_sig.entry(sig).or_insert((0, hi, detail.clone()));
            e.0 += 1;
            let size = |i: usize| hists[i].iter().map(|m| match m { Msg::Open(t) | Msg::Change(t) | Msg::OpenOther(t) => t.len(), Msg::Pipelined(a, b) => a.len() + b.len(), Msg::ChangeMulti(ts) => ts.iter().map(|t| t.len()).sum(), _ => 0 }).sum::<usize>();
            if size(hi) < size(e.1) {
                e.1 = hi;
                e.2 = detail;
            }
        }
    }
    let _: HashSet<u8> = HashSet::new();
    if bad_exit > 0 {
        rep.add(Violation { signature: "server did not exit cleanly on shutdown".into(), detail: format!("{} server processes ended with a non-zero status or had to be killed", bad_exit), case: json!({"kind":"lsp","history":["initialize","shutdown","exit"]}) });
    }
    for (sig, (cnt, hi, detail)) in by_sig {
        rep.violating_cases += cnt;
        let h: Vec<J> = hists[hi]
            .iter()
            .map(|m| match m {
                Msg::Open(t) => json!({"didOpen": t}),
                Msg::Change(t) => json!({"didChange": t}),
                Msg::ChangeMulti(ts) => json!({"didChangeMulti": ts}),
                Msg::Tokens => json!("semanticTokens/full"),
                Msg::OpenOther(t) => json!({"didOpen (same URI in upper case)": t}),
                Msg::TokensOwn => json!("semanticTokens/full (first document)"),
                Msg::Pipelined(a, b) => json!({"written without waiting: didChange (this document), didChange (the other document), semanticTokens/full (this document)": [a, b]}),
            })
            .collect();
        rep.violations.push(Violation { signature: sig, detail: format!("{} (smallest of {} failing histories)", detail, cnt), case: json!({"kind":"lsp","history":h}) });
    }
    rep.coverage = json!({
        "evaluations": sent,
        "distinct_nontrivial": nh,
        "rule": "histories = didOpen+semanticTokens for every document, didOpen+didChange+semanticTokens for every ordered pair over the core (thorough: 5-message histories over all triples of a 12-document core); each history is distinct and non-trivial (at least one analysis and one token request)",
        "exhaustive": true,
        "documents": docs.len(),
        "core_documents": core.len(),
        "histories": nh,
        "messages_sent": sent,
        "server_crashes_or_timeouts": crashes,
        "samples": [{"history": [{"didOpen": "10 PRINT \"é\" + 1"}, {"didChange": "10 X = 1\n10"}, "semanticTokens/full"]}],
    });
    rep.assumptions = vec!["the server is spoken to over stdio with RUST_BACKTRACE=0; a missing answer within 8 s counts as the server being dead".into()];
    rep
}
