//! Engine A: layered breadth-first search over host-call histories on the real interpreter.
//! A state is represented by a history that reaches it and is rebuilt by replay on a fresh
//! interpreter; states are de-duplicated on the complete canonical snapshot
//! (`Interpreter::verif_snapshot`), stored in full (no hashing unsoundness).

use crate::common::*;
use abasic_core::verif::VerifState;
use rayon::prelude::*;
use std::collections::{BTreeMap, HashSet};
use std::sync::Arc;

pub struct BfsStats {
    pub layers_completed: usize,
    pub states: u64,
    pub transitions: u64,
    pub replayed_calls: u64,
    pub frontier_emptied: bool,
    /// the search was cut after a complete layer because it already holds hundreds of violations
    pub stopped_on_violations: bool,
    pub states_per_layer: Vec<u64>,
    pub outcome_classes: BTreeMap<String, (u64, Vec<Ev>)>,
    pub events_enabled: BTreeMap<String, u64>,
}

pub struct Transition<'a> {
    pub hist: &'a [Ev],
    pub ev: &'a Ev,
    pub before: &'a VerifState,
    pub result: &'a CallResult,
}

pub type CheckFn<'a> = dyn Fn(&Transition, &mut Sess) -> Vec<Violation> + Sync + 'a;
pub type ProbeFn<'a> = dyn Fn(&[Ev], &VerifState) -> Vec<Violation> + Sync + 'a;
pub type MkFn<'a> = dyn Fn() -> Sess + Sync + 'a;

pub fn replay(mk: &MkFn, hist: &[Ev]) -> Sess {
    let mut s = mk();
    for e in hist {
        let _ = s.apply(e);
        s.recs.clear();
    }
    s
}

fn ev_label(e: &Ev) -> String {
    match e {
        Ev::Line(l) => format!("line:{}", truncate(l, 40)),
        Ev::LineToIdle(l) => format!("line*:{}", truncate(l, 40)),
        Ev::Cont => "continue".into(),
        Ev::Break => "break".into(),
        Ev::Input(s) => format!("input:{}", truncate(s, 20)),
        Ev::Replace => "replace".into(),
        Ev::StopEvaluating => "stop_evaluating".into(),
        Ev::Randomize(s) => format!("randomize:{}", s),
    }
}

/// Runs the search. `check` is the oracle on every transition (it receives the session
/// *after* the call, transcript of that call only). `probe`, if given, runs once on every
/// newly discovered distinct state.
pub fn bfs(
    mk: &MkFn,
    roots: &[Vec<Ev>],
    alphabet: &[Ev],
    max_depth: usize,
    check: &CheckFn,
    probe: Option<&ProbeFn>,
    max_states: u64,
) -> (BfsStats, Vec<Violation>) {
    // The seen set keeps a 128-bit fingerprint of each canonical state (two independently keyed
    // hashes), not the state: a layer of hundreds of thousands of states of several KiB each is
    // what the memory went to. Equal fingerprints of different states are not a practical concern
    // at 2^-128 per pair, and would only merge two states.
    fn fingerprint(s: &VerifState) -> (u64, u64) {
        use std::hash::{Hash, Hasher};
        let mut a = std::collections::hash_map::DefaultHasher::new();
        0x9e3779b97f4a7c15u64.hash(&mut a);
        s.hash(&mut a);
        let mut b = std::collections::hash_map::DefaultHasher::new();
        s.hash(&mut b);
        0xc2b2ae3d27d4eb4fu64.hash(&mut b);
        (a.finish(), b.finish())
    }
    let mut seen: HashSet<(u64, u64)> = HashSet::new();
    let mut frontier: Vec<(Arc<Vec<Ev>>, Arc<VerifState>)> = vec![];
    let mut violations: Vec<Violation> = vec![];
    let mut stats = BfsStats {
        layers_completed: 0,
        states: 0,
        transitions: 0,
        replayed_calls: 0,
        frontier_emptied: false,
        stopped_on_violations: false,
        states_per_layer: vec![],
        outcome_classes: BTreeMap::new(),
        events_enabled: BTreeMap::new(),
    };

    // Determinism self-test: one root replayed twice must give identical snapshots.
    for r in roots {
        let a = replay(mk, r).it.verif_snapshot();
        let b = replay(mk, r).it.verif_snapshot();
        if a != b {
            machinery("replaying the same history twice gave different snapshots");
        }
        let a = Arc::new(a);
        if seen.insert(fingerprint(&a)) {
            if let Some(p) = probe {
                violations.extend(p(r, &a));
            }
            frontier.push((Arc::new(r.clone()), a));
        }
    }
    stats.states = seen.len() as u64;
    stats.states_per_layer.push(seen.len() as u64);

    for depth in 0..max_depth {
        if frontier.is_empty() {
            stats.frontier_emptied = true;
            break;
        }
        let mut new_in_layer = 0u64;
        struct Out {
            hist: Vec<Ev>,
            snap: VerifState,
            viol: Vec<Violation>,
            class: String,
            calls: u64,
            label: String,
        }
        let mut next: Vec<(Arc<Vec<Ev>>, Arc<VerifState>)> = vec![];
        let last_layer = depth + 1 == max_depth;
        // the frontier is expanded in slices, so that the transitions in flight (each carries a
        // whole state) stay bounded
        for slice in frontier.chunks(2048) {
        let outs: Vec<Out> = slice
            .par_iter()
            .flat_map_iter(|(hist, before)| {
                let mut outs = vec![];
                let state = match before.state.as_str() {
                    "Idle" => abasic_core::InterpreterState::Idle,
                    "Running" => abasic_core::InterpreterState::Running,
                    "AwaitingInput" => abasic_core::InterpreterState::AwaitingInput,
                    _ => abasic_core::InterpreterState::NewInterpreterRequested,
                };
                for ev in alphabet {
                    if !enabled(state, ev) {
                        continue;
                    }
                    let mut s = replay(mk, hist);
                    // Divergence while replaying a stored prefix is a machinery error.
                    if s.it.verif_snapshot() != **before {
                        machinery("snapshot diverged while replaying a stored history prefix");
                    }
                    let result = s.apply(ev);
                    let t = Transition {
                        hist,
                        ev,
                        before,
                        result: &result,
                    };
                    let class = match &result {
                        CallResult::Ok => format!("ok->{:?}", s.state()),
                        CallResult::Err(k, _) => {
                            let k = k.split('(').next().unwrap_or(k).to_string();
                            format!("err:{}->{:?}", k, s.state())
                        }
                        CallResult::Panic(p) => format!("panic:{}", short_panic(p)),
                    };
                    let mut h: Vec<Ev> = (**hist).clone();
                    h.push(ev.clone());
                    // After a panic the interpreter is in an unspecified state; do not expand.
                    if matches!(result, CallResult::Panic(_)) {
                        let viol = check(&t, &mut s);
                        outs.push(Out {
                            hist: h,
                            snap: (**before).clone(),
                            viol,
                            class,
                            calls: hist.len() as u64 + 1,
                            label: ev_label(ev),
                        });
                        continue;
                    }
                    s.drain();
                    // Snapshot first: the oracle may go on using (and disturbing) the session.
                    let snap = guarded(|| s.it.verif_snapshot());
                    let snap = match snap {
                        Ok(s) => s,
                        Err(_) => (**before).clone(),
                    };
                    let viol = check(&t, &mut s);
                    outs.push(Out {
                        hist: h,
                        snap,
                        viol,
                        class,
                        calls: hist.len() as u64 + 1,
                        label: ev_label(ev),
                    });
                }
                outs.into_iter()
            })
            .collect();

        let mut new_states: Vec<(Arc<Vec<Ev>>, Arc<VerifState>)> = vec![];
        for o in outs {
            stats.transitions += 1;
            stats.replayed_calls += o.calls;
            *stats.events_enabled.entry(o.label).or_insert(0) += 1;
            let e = stats
                .outcome_classes
                .entry(o.class.clone())
                .or_insert_with(|| (0, o.hist.clone()));
            e.0 += 1;
            violations.extend(o.viol);
            if o.class.starts_with("panic:") {
                continue;
            }
            if seen.insert(fingerprint(&o.snap)) {
                let snap = Arc::new(o.snap);
                let h = Arc::new(o.hist);
                if probe.is_some() {
                    new_states.push((h.clone(), snap.clone()));
                }
                // states found by the last layer are counted and probed but never expanded
                if !last_layer {
                    next.push((h, snap));
                }
                new_in_layer += 1;
            }
        }
        if let Some(p) = probe {
            let pv: Vec<Violation> = new_states
                .par_iter()
                .flat_map_iter(|(h, s)| p(h, s).into_iter())
                .collect();
            violations.extend(pv);
        }
        }
        stats.layers_completed = depth + 1;
        stats.states = seen.len() as u64;
        stats.states_per_layer.push(new_in_layer);
        frontier = next;
        if stats.states > max_states {
            break;
        }
        // Enough counterexamples: a broken subject can multiply the reachable states (every wrong
        // store is a new state) and the search would run into the wall-clock cap instead of
        // reporting what it has. The layer is complete, so the shortest counterexamples are in.
        if violations.len() >= 500 {
            stats.stopped_on_violations = true;
            break;
        }
    }
    if frontier.is_empty() {
        stats.frontier_emptied = true;
    }
    (stats, violations)
}

pub fn stats_json(stats: &BfsStats) -> serde_json::Value {
    use serde_json::json;
    json!({
        "layers_completed": stats.layers_completed,
        "states_per_layer": stats.states_per_layer,
        "frontier_emptied": stats.frontier_emptied,
        "stopped_after_a_layer_with_many_violations": stats.stopped_on_violations,
        "host_calls_executed_including_replay": stats.replayed_calls,
        "outcome_classes": stats.outcome_classes.iter().map(|(k,(n,h))| json!({"class":k,"count":n,"shortest_history":hist_json(h)})).collect::<Vec<_>>(),
        "distinct_outcome_classes": stats.outcome_classes.len(),
        "events_used": stats.events_enabled.len(),
    })
}
