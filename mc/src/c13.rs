//! C13 — every token's reported source range is exact.
//! Shape B: all lines of <= n atoms (concatenated without separators) over an atom alphabet.

use crate::common::*;
use crate::gen::*;
use abasic_core::verif::tokenize;
use rayon::prelude::*;
use serde_json::json;
use std::collections::BTreeMap;

/// A numeral above the f64 range (310 digits): rejected as INVALID NUMBER.
const HUGE: &str = "9999999999999999999999999999999999999999999999999999999999999999999999999999999999999999999999999999999999999999999999999999999999999999999999999999999999999999999999999999999999999999999999999999999999999999999999999999999999999999999999999999999999999999999999999999999999999999999999999999999999999999999";

pub fn atoms() -> Vec<&'static str> {
    vec![
        "PRINT", "GOTO", "GO", "TO", "IF", "X", "A$", "$", "12", ".5", ".", "<", "=", ">", "(",
        "+", "\"s t\"", "\"", " ", "\t", "é", "%", ":", ",", "REM r ", "DATA d , e ", "NOT", "1", HUGE, "\"ıŉ\"", "ŉ", "\u{c}", "\u{a0}", "\u{1f60a}", "DATA",
    ]
}

fn is_blank(b: u8) -> bool {
    b.is_ascii_whitespace() && b != b'\n'
}

pub fn check_line(line: &str) -> Option<(String, String)> {
    let r = watch_text("line", line, || guarded(|| tokenize(line)));
    match r {
        Err(p) => Some((format!("panic {}", short_panic(&p)), format!("tokenize panicked: {}", p))),
        Ok(Ok(toks)) => {
            let mut prev_end = 0usize;
            for (i, (tok, r)) in toks.iter().enumerate() {
                let name = format!("{:?}", tok);
                let kind = name.split('(').next().unwrap_or("").to_string();
                if !(r.start < r.end && r.end <= line.len()) {
                    return Some((format!("{} range empty or out of bounds", kind), format!("token {} {:?} has range {:?} in a line of {} bytes", i, tok, r, line.len())));
                }
                if !line.is_char_boundary(r.start) || !line.is_char_boundary(r.end) {
                    return Some((format!("{} range splits a character", kind), format!("token {} {:?} range {:?}", i, tok, r)));
                }
                if i > 0 && r.start < prev_end {
                    return Some((format!("{} range overlaps previous", kind), format!("token {} {:?} range {:?} starts before {}", i, tok, r, prev_end)));
                }
                prev_end = r.end;
                let bytes = line.as_bytes();
                let runs_to_end = kind == "Remark" || kind == "Data";
                if is_blank(bytes[r.start]) {
                    return Some((format!("{} range begins on a blank", kind), format!("token {} {:?} range {:?} in {:?}", i, tok, r, line)));
                }
                if !runs_to_end && is_blank(bytes[r.end - 1]) {
                    return Some((format!("{} range ends on a blank", kind), format!("token {} {:?} range {:?} in {:?}", i, tok, r, line)));
                }
                let slice = &line[r.clone()];
                match guarded(|| tokenize(slice)) {
                    Ok(Ok(again)) => {
                        let same = again.len() == 1 && format!("{:?}", again[0].0) == name;
                        if !same {
                            return Some((
                                format!("{} slice re-tokenizes differently", kind),
                                format!("token {} {:?} has range {:?} = {:?}, which tokenizes to {:?}", i, tok, r, slice, again.iter().map(|t| format!("{:?}", t.0)).collect::<Vec<_>>()),
                            ));
                        }
                    }
                    other => {
                        return Some((
                            format!("{} slice does not tokenize", kind),
                            format!("token {} {:?} range {:?} = {:?}: {:?}", i, tok, r, slice, other.map(|x| x.map(|_| ()))),
                        ))
                    }
                }
            }
            None
        }
        Ok(Err(e)) => {
            let start = e.range.start;
            if start > line.len() || !line.is_char_boundary(start) {
                return Some((format!("error position invalid ({})", e.kind), format!("error {:?} at {} in {:?}", e.kind, start, line)));
            }
            let prefix = &line[..start];
            match guarded(|| tokenize(prefix)) {
                Ok(Ok(before)) => {
                    let a: Vec<String> = before.iter().map(|t| format!("{:?}", t.0)).collect();
                    let b: Vec<String> = e.tokens_before.iter().map(|t| format!("{:?}", t.0)).collect();
                    if a != b {
                        return Some((
                            format!("text before the error tokenizes differently ({})", e.kind),
                            format!("{:?}: error at {}, tokens yielded before {:?}, prefix tokenizes to {:?}", line, start, b, a),
                        ));
                    }
                    None
                }
                other => Some((
                    format!("text before the error does not tokenize ({})", e.kind),
                    format!("{:?}: error at {}, prefix {:?}: {:?}", line, start, prefix, other.map(|x| x.map(|_| ()))),
                )),
            }
        }
    }
}

/// Interpreter route: the same lines entered at the prompt of an interpreter whose previous
/// command failed (an immediate statement, a run that died in line 20). A line that does not
/// tokenize is reported with no program line, as the line just entered, the caret under the
/// position the tokenizer reports.
fn interpreter_route(lines: &[String]) -> Vec<(String, String, String)> {
    use abasic_core::verif::{parse_line_number, tokenize_skipping};
    let mut out = vec![];
    let mut s1 = Sess::new();
    let _ = s1.apply(&Ev::Line("PRINT 1/0".into()));
    let mut s2 = Sess::new();
    let _ = s2.apply(&Ev::Line("20 PRINT 1/0".into()));
    let _ = s2.apply(&Ev::LineToIdle("RUN".into()));
    for line in lines {
        let skip = match guarded(|| parse_line_number(line)) {
            Ok(Some((_, e))) => e,
            Ok(None) => 0,
            Err(_) => continue, // reported by the main pass of C05 / C01
        };
        let e = match guarded(|| tokenize_skipping(line, skip)) {
            Ok(Err(e)) => e,
            _ => continue,
        };
        for (name, s) in [("after a failed statement", &mut s1), ("after a run that failed", &mut s2)] {
            s.recs.clear();
            let r = s.apply(&Ev::Line(line.clone()));
            let problem = match &r {
                CallResult::Panic(p) => Some(format!("panic {}", short_panic(p))),
                CallResult::Ok => Some("was accepted".to_string()),
                CallResult::Err(k, l) => {
                    if !k.contains("Tokenization") {
                        Some(format!("was rejected as {}", k.split('(').next().unwrap_or(k)))
                    } else if l.is_some() {
                        Some("error is attributed to a program line".to_string())
                    } else if let Some(err) = s.last_err.take() {
                        match guarded(|| err.get_line_with_pointer_caret(&s.it, Some(line.as_str()))) {
                            Err(p) => Some(format!("rendering panicked {}", short_panic(&p))),
                            Ok(c) => {
                                let col = line[..e.range.start.min(line.len())].chars().count();
                                let ok = c.len() == 2
                                    && match c[0].find(line.as_str()) {
                                        Some(off) => c[1].chars().position(|ch| ch == '^') == Some(c[0][..off].chars().count() + col),
                                        None => false,
                                    };
                                if ok { None } else { Some(format!("is rendered as {:?} (tokenizer reports position {})", c, e.range.start)) }
                            }
                        }
                    } else {
                        None
                    }
                }
            };
            if let Some(p) = problem {
                out.push((
                    format!("entered {}: a line that does not tokenize {}", name, p.split(" [").next().unwrap_or(&p).chars().filter(|c| !c.is_ascii_digit()).take(60).collect::<String>()),
                    format!("{:?} entered {}: {} (call result {:?})", line, name, p, r),
                    line.clone(),
                ));
                break;
            }
        }
        if s1.state() != abasic_core::InterpreterState::Idle || s2.state() != abasic_core::InterpreterState::Idle {
            break;
        }
    }
    out
}

/// Analyzer route: the per-line token lists the source-file analyzer hands to front ends. One
/// list per file line, and for a line that tokenizes exactly the tokenizer's ranges (behind
/// the line-number token, if the line has one).
fn analyzer_route(thorough: bool) -> (u64, Vec<(String, String, String)>) {
    use abasic_core::verif::{parse_line_number, tokenize_skipping};
    let set = [
        "10 PRINT 1", "", " ", "\r", "\t ", "20 X=\"\u{e9}\"", "30 REM x ", "PRINT", "10", "40 %", " 50 A$ = 1", "60 DATA a, b\r", "70 \"", "80 ?1;2", "\u{c}", "10 \u{a0}", "10 PRINT 12345", "10 PRINT B", "20 GOTO 99", "\u{a0}30 PRINT 1",
        // the statement text of the first line under a line number of another width
        "100 PRINT 1",
        // a line that stops tokenizing after several good tokens
        "90 PRINT 1 %",
        // names met as subscripted targets of READ / INPUT / DIM
        "30 READ QQ(2): INPUT RR(1)",
    ];
    let n = if thorough { 4 } else { 3 };
    let base = set.len() as u64;
    let mut files = 0u64;
    let mut out = vec![];
    let check_file = |lines: Vec<&str>| -> Option<(String, String, String)> {
                let text = lines.join("\n");
                let t2 = text.clone();
                let (a, own) = match guarded(move || {
                    let a = abasic_core::SourceFileAnalyzer::analyze(t2);
                    (a.token_types().iter().map(|l| l.iter().map(|(_, r)| r.clone()).collect::<Vec<_>>()).collect::<Vec<_>>(), a.source_file_lines().clone())
                }) {
                    Ok(a) => a,
                    Err(p) => return Some((format!("analyzer panic {}", short_panic(&p)), p, text)),
                };
                // the ranges refer to the lines the analyzer itself hands out
                for (k, rs) in a.iter().enumerate() {
                    for r in rs {
                        let ok = own.get(k).map(|l| r.end <= l.len() && l.is_char_boundary(r.start) && l.is_char_boundary(r.end)).unwrap_or(false);
                        if !ok {
                            return Some((
                                "token range does not fit the line the analyzer hands out".into(),
                                format!("file {:?}: line {} token range {:?}; the analyzer's own line is {:?}", text, k, r, own.get(k)),
                                text,
                            ));
                        }
                    }
                }
                // located diagnostics: the range is a token of the line it names (or the line number)
                {
                    let t3 = text.clone();
                    let diag = guarded(move || {
                        let a = abasic_core::SourceFileAnalyzer::analyze(t3);
                        a.messages()
                            .iter()
                            .filter_map(|m| {
                                let text = match m {
                                    abasic_core::DiagnosticMessage::Warning(_, _, s) => s.clone(),
                                    abasic_core::DiagnosticMessage::Error(_, e) => e.to_string(),
                                };
                                a.source_file_map().map_to_source(m).map(|(l, r)| (l, r, text))
                            })
                            .collect::<Vec<_>>()
                    });
                    if let Ok(diag) = diag {
                        for (dl, dr, dtext) in diag {
                            let Some(line) = lines.get(dl) else { continue };
                            // a message that quotes a name points at that name
                            if let Some(name) = dtext.split('\'').nth(1) {
                                if dtext.contains("is never") {
                                    let at = line.get(dr.clone()).unwrap_or("").to_uppercase().replace(' ', "");
                                    if at != name.to_uppercase() {
                                        return Some((
                                            "diagnostic about a name points at other text".into(),
                                            format!("file {:?}: {:?} is located at line {} range {:?} = {:?}", text, dtext, dl, dr, line.get(dr.clone())),
                                            text,
                                        ));
                                    }
                                }
                            }
                            let Some((_, skip)) = parse_line_number(line) else { continue };
                            if let Ok(toks) = tokenize_skipping(line, skip) {
                                let on_token = toks.iter().any(|t| t.1 == dr) || (dr.start <= skip && dr.end <= skip) || toks.is_empty();
                                let joins = toks.iter().any(|t| t.1.start == dr.start) && toks.iter().any(|t| t.1.end == dr.end);
                                if !on_token && !joins {
                                    return Some((
                                        "diagnostic range is not a token range of the line it names".into(),
                                        format!("file {:?}: diagnostic at line {} range {:?}; tokens of that line {:?}", text, dl, dr, toks.iter().map(|t| t.1.clone()).collect::<Vec<_>>()),
                                        text,
                                    ));
                                }
                            }
                        }
                    }
                }
                if a.len() != lines.len() {
                    return Some(("not one token list per file line".into(), format!("{} lists for {} lines of {:?}", a.len(), lines.len(), text), text));
                }
                for (k, line) in lines.iter().enumerate() {
                    let (skip, first) = match parse_line_number(line) {
                        Some((_, e)) => (e, line.find(|c: char| c.is_ascii_digit())),
                        None => (0, None),
                    };
                    if skip == 0 {
                        continue; // a line without a number is only warned about
                    }
                    // what is reported as the line number is blanks and digits, nothing else
                    if !line[..skip].chars().all(|c| c == ' ' || c == '\t' || c == '\r' || c.is_ascii_digit()) {
                        return Some((
                            "line-number token covers something else than blanks and digits".into(),
                            format!("file {:?}, line {} {:?}: the line number is said to end at byte {}", text, k, line, skip),
                            text,
                        ));
                    }
                    if let Ok(toks) = tokenize_skipping(line, skip) {
                        let h: Vec<std::ops::Range<usize>> = toks.iter().map(|t| t.1.clone()).collect();
                        let same = a[k] == h || (skip > 0 && !a[k].is_empty() && a[k][0].end == skip && a[k][0].start <= first.unwrap_or(0) && a[k][1..] == h[..]);
                        if !same {
                            return Some((
                                "token list of a file line differs from the tokenizer's".into(),
                                format!("file {:?}, line {} {:?}: analyzer ranges {:?}, tokenizer ranges {:?} (line number ends at {})", text, k, line, a[k], h, skip),
                                text,
                            ));
                        }
                    }
                }
                None
    };
    for len in 1..=n {
        let count = pow(base, len);
        files += count;
        let res: Vec<(String, String, String)> = (0..count)
            .into_par_iter()
            .filter_map(|i| check_file(decode_seq(i, base, len).iter().map(|k| set[*k]).collect()))
            .collect();
        out.extend(res);
    }
    // lines longer than 16-bit offsets reach: tokens and located diagnostics beyond byte 65535
    {
        let pad = "x".repeat(70000);
        let long: Vec<String> = vec![
            format!("10 A$ = \"{}\": Y = 1", pad),
            format!("10 PRINT \"{}\"; Q9", pad),
            format!("10 REM {}\n20 PRINT ZZ", pad),
            format!("10 PRINT 1: B$ = \"{}\": PRINT W7 + 1: GOTO 99", &pad[..65520]),
        ];
        files += long.len() as u64;
        for t in &long {
            if let Some((s, d, _)) = check_file(t.split('\n').collect()) {
                let cut = |x: String| if x.len() > 400 { format!("{}...", x.chars().take(400).collect::<String>()) } else { x };
                out.push((format!("{} (line longer than 65535 bytes)", s), cut(d), t.clone()));
            }
        }
    }
    (files, out)
}

pub fn run(thorough: bool) -> Report {
    let mut rep = Report::new("C13", "exploration");
    let at = atoms();
    let base = at.len() as u64;
    let n = if thorough { 5 } else { 4 };
    let mut lines = 0u64;
    let mut nontrivial = 0u64;
    let mut by_sig: BTreeMap<String, (u64, String, String)> = BTreeMap::new();
    let mut kinds: BTreeMap<String, u64> = BTreeMap::new();
    for len in 1..=n {
        let count = pow(base, len);
        lines += count;
        let res: Vec<(Option<(String, String, String)>, bool, String)> = (0..count)
            .into_par_iter()
            .map(|i| {
                let line: String = decode_seq(i, base, len).iter().map(|k| at[*k]).collect();
                let t = guarded(|| tokenize(&line));
                let (nt, cls) = match &t {
                    Ok(Ok(toks)) => (toks.len() >= 2, "tokenizes".to_string()),
                    Ok(Err(e)) => (!e.tokens_before.is_empty(), e.kind.clone()),
                    Err(_) => (false, "panic".into()),
                };
                (check_line(&line).map(|(s, d)| (s, d, line)), nt, cls)
            })
            .collect();
        for (p, nt, cls) in res {
            if nt {
                nontrivial += 1;
            }
            *kinds.entry(cls).or_insert(0) += 1;
            if let Some((s, d, l)) = p {
                let e = by_sig.entry(s).or_insert((0, l.clone(), d.clone()));
                e.0 += 1;
                if l.len() < e.1.len() {
                    e.1 = l;
                    e.2 = d;
                }
            }
        }
    }
    // interpreter route for every line of <= n-1 atoms
    let mut routed = 0u64;
    for len in 1..n {
        let count = pow(base, len);
        routed += count;
        let all: Vec<String> = (0..count).map(|i| decode_seq(i, base, len).iter().map(|k| at[*k]).collect::<String>()).collect();
        let res: Vec<(String, String, String)> = all.par_chunks(2000).flat_map(|c| interpreter_route(c)).collect();
        for (s, d, l) in res {
            let e = by_sig.entry(s).or_insert((0, l.clone(), d.clone()));
            e.0 += 1;
            if l.len() < e.1.len() {
                e.1 = l;
                e.2 = d;
            }
        }
    }
    let (afiles, ares) = analyzer_route(thorough);
    for (s, d, l) in ares {
        let e = by_sig.entry(s).or_insert((0, l.clone(), d.clone()));
        e.0 += 1;
        if l.len() < e.1.len() {
            e.1 = l;
            e.2 = d;
        }
    }
    if kinds.len() < 3 {
        machinery("vacuous: too few outcome classes");
    }
    for (sig, (cnt, line, detail)) in by_sig {
        rep.violating_cases += cnt;
        rep.violations.push(Violation {
            signature: sig,
            detail: format!("{} (smallest of {} failing lines: {:?})", detail, cnt, line),
            case: json!({"kind":"line","text":line}),
        });
    }
    rep.coverage = json!({
        "evaluations": lines,
        "distinct_nontrivial": nontrivial,
        "rule": "all concatenations of <= n atoms (distinct index tuples; different tuples may spell the same text); non-trivial = at least two tokens, or at least one token before a tokenization error",
        "exhaustive": true,
        "atoms": at,
        "max_atoms": n,
        "files_through_the_analyzer_route": afiles,
        "lines_also_entered_at_the_prompt_after_a_failed_command": routed,
        "outcome_classes": kinds,
        "samples": ["GO TOX12", "PRINT\"s t\"<=.5", "A$é", "DATA d , e :REM r "],
    });
    rep.assumptions = vec!["token equality is by Debug rendering (numbers by their shortest round-trip form)".into()];
    rep
}
