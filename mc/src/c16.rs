//! C16 — runtime state stays within its caps and obeys name-suffix typing.
//! Shape A: the invariant J is evaluated on the complete state snapshot after every host
//! call of (1) a BFS over a writer-focused alphabet, (2) an exhaustive DIM subscript sweep,
//! (3) cap programs parameterised around the limits.

use crate::bfs::*;
use crate::common::*;
use crate::gen::*;
use abasic_core::verif::{VerifState, VerifValue};
use abasic_core::InterpreterState;
use rayon::prelude::*;
use serde_json::json;
use std::collections::{BTreeMap, HashSet};

fn kind_ok(name: &str, v: &VerifValue) -> bool {
    matches!(v, VerifValue::Str(_)) == name.ends_with('$')
}

/// The invariant. Returns a description of the first clause that fails.
pub fn invariant(s: &VerifState) -> Option<String> {
    if s.nesting_depth != 0 {
        return Some(format!("nesting depth {} between host calls", s.nesting_depth));
    }
    if s.stack.len() > 32 {
        return Some(format!("{} frames on the stack", s.stack.len()));
    }
    if s.loops.len() > 32 {
        return Some(format!("{} open loops", s.loops.len()));
    }
    let mut names = HashSet::new();
    for l in &s.loops {
        if !names.insert(l.symbol.clone()) {
            return Some(format!("two open loops for {}", l.symbol));
        }
    }
    for a in &s.arrays {
        let mut prod: u128 = 1;
        for d in &a.dimensions {
            if *d < 1 {
                return Some(format!("array {} has a zero dimension", a.name));
            }
            prod = prod.saturating_mul(*d as u128);
        }
        if a.dimensions.is_empty() {
            return Some(format!("array {} has no dimensions", a.name));
        }
        if prod != a.cell_count as u128 {
            return Some(format!("array {}: {} cells for dimensions {:?}", a.name, a.cell_count, a.dimensions));
        }
        if a.cell_count > 10000 {
            return Some(format!("array {} has {} cells", a.name, a.cell_count));
        }
        if a.string_storage != a.name.ends_with('$') {
            return Some(format!("array {} has the wrong storage kind", a.name));
        }
        for (_, v) in &a.non_default_cells {
            if !kind_ok(&a.name, v) {
                return Some(format!("array {} holds a value of the wrong kind", a.name));
            }
        }
    }
    for (n, v) in &s.variables {
        if !kind_ok(n, v) {
            return Some(format!("variable {} holds a value of the wrong kind", n));
        }
    }
    for f in &s.stack {
        for (n, v) in &f.bindings {
            if !kind_ok(n, v) {
                return Some(format!("parameter {} is bound to a value of the wrong kind", n));
            }
        }
    }
    None
}

fn idle_lines() -> Vec<&'static str> {
    vec![
        "X=1", "X$=\"s\"", "X=\"s\"", "X$=1", "LET A(1)=2", "A$(1)=\"q\"", "A(1)=\"q\"", "A$(1)=1",
        "FOR X$=1 TO 2", "FOR I=1 TO 2", "FOR J=1 TO 2", "NEXT I", "NEXT X$",
        "10 FOR I=1 TO 2", "20 GOTO 10", "20", "30 READ X", "40 READ X$", "30 READ X$,X", "50 DATA 1,\"a\"",
        "60 INPUT X", "60 INPUT X$", "60 INPUT A$(2)", "5 DEF FNA(X$)=1", "6 DEF FNB(X)=X", "7 GOSUB 7",
        "8 DEF FNC(Y)=FNC(Y)", "PRINT FNC(1)",
        "PRINT FNA(1)", "PRINT FNA(\"s\")", "PRINT FNB(\"s\")", "PRINT FNB(1)", "RUN", "CONT", "GOTO 30", "GOTO 5",
        "PRINT B(1)", "PRINT C$(1,1)", "PRINT D(1,1,1)", "PRINT E(1,1,1,1)", "DIM F(99)", "DIM G$(9,9)",
        "DIM H(4294967295,4294967295)", "READ A(1)", "READ A$(1)", "INPUT X", "IF 1 THEN PRINT 1/0", "IF 0 THEN PRINT 1 ELSE RETURN", "PRINT ((1/0))", "9 IF X=0 THEN PRINT (1/X)", "GOTO 9",
        // reads of names nothing was ever stored under
        "PRINT Q$;Q;R$(1)", "Q$=P$",
        // two loop variables with the same initial letter
        "FOR I2=1 TO 1", "NEXT I2",
    ]
}

fn alphabet() -> Vec<Ev> {
    let mut a: Vec<Ev> = idle_lines().into_iter().map(|l| Ev::Line(l.into())).collect();
    a.push(Ev::Cont);
    a.push(Ev::Break);
    a.push(Ev::Input("5".into()));
    a.push(Ev::Input("x".into()));
    a
}

fn check_transition(t: &Transition, s: &mut Sess) -> Vec<Violation> {
    let mut hist = t.hist.to_vec();
    hist.push(t.ev.clone());
    let mut out = vec![];
    let mk = |sig: String, detail: String| Violation { signature: sig, detail, case: case_history(&hist, false, false) };
    if let CallResult::Panic(p) = t.result {
        out.push(mk(format!("panic {}", short_panic(p)), format!("{:?} panicked: {}", t.ev, p)));
        return out;
    }
    match guarded(|| s.it.verif_snapshot()) {
        Ok(snap) => {
            if let Some(w) = invariant(&snap) {
                let key: String = w.chars().filter(|c| !c.is_ascii_digit()).collect();
                out.push(mk(format!("invariant: {}", key), format!("after {:?}: {}", t.ev, w)));
            }
        }
        Err(p) => out.push(mk(format!("snapshot panic {}", short_panic(&p)), p)),
    }
    if let CallResult::Err(k, _) = t.result {
        if k.starts_with("OutOfMemory") {
            if s.state() != InterpreterState::Idle {
                out.push(mk("not idle after OUT OF MEMORY".into(), format!("state {:?}", s.state())));
            } else {
                s.recs.clear();
                let r = s.apply(&Ev::Line("PRINT 1".into()));
                if r != CallResult::Ok || s.printed() != "1\n" {
                    out.push(mk("unusable after OUT OF MEMORY".into(), format!("PRINT 1 gave {:?} {:?}", r, s.printed())));
                }
            }
        }
    }
    out
}

/// Runs a program turn by turn checking J at every boundary.
/// Returns (turns, final outcome, first invariant failure).
fn run_checked(lines: &[String], cap: usize) -> (u64, RunEnd, Option<String>, Sess) {
    let mut s = Sess::new();
    for l in lines {
        let _ = s.apply(&Ev::Line(l.clone()));
    }
    s.recs.clear();
    let mut bad = None;
    let mut turns = 0u64;
    let mut r = s.apply(&Ev::Line("RUN".into()));
    let end = loop {
        turns += 1;
        if bad.is_none() {
            bad = guarded(|| invariant(&s.it.verif_snapshot())).unwrap_or_else(|p| Some(format!("snapshot panic {}", p)));
        }
        match r {
            CallResult::Panic(p) => break RunEnd::Panic(p),
            CallResult::Err(k, l) => break RunEnd::Error(k, l),
            CallResult::Ok => {}
        }
        match s.state() {
            InterpreterState::Running => {
                if turns as usize > cap {
                    break RunEnd::Cap;
                }
                r = s.apply(&Ev::Cont);
            }
            InterpreterState::Idle => break RunEnd::Idle,
            _ => break RunEnd::NoReply,
        }
    };
    (turns, end, bad, s)
}

fn cap_programs(n: usize) -> Vec<(String, Vec<String>, bool)> {
    // (name, lines, expect_overflow)
    let over = n > 32;
    let mut v = vec![];
    // n nested GOSUBs
    let mut l: Vec<String> = (1..=n).map(|i| format!("{} GOSUB {}", 10 * i, 10 * (i + 1))).collect();
    l.push(format!("{} PRINT \"deep\"", 10 * (n + 1)));
    v.push((format!("{} nested GOSUBs", n), l, over));
    // the same nesting through every shape a GOSUB can stand in
    for (shape, pre, post) in [
        ("under THEN with an ELSE", "IF 1 THEN ", " ELSE PRINT 0"),
        ("under ELSE", "IF 0 THEN PRINT 0 ELSE ", ""),
        ("under THEN", "IF 1 THEN ", ""),
        ("behind a colon, with a tail", "X=X+1: ", ": Y=Y+1"),
    ] {
        let mut l: Vec<String> = (1..=n).map(|i| format!("{} {}GOSUB {}{}", 10 * i, pre, 10 * (i + 1), post)).collect();
        l.push(format!("{} PRINT \"deep\"", 10 * (n + 1)));
        v.push((format!("{} nested GOSUBs {}", n, shape), l, over));
    }
    // n-deep function chain
    let mut l: Vec<String> = (1..=n).map(|i| {
        if i < n { format!("{} DEF Q{}(X)=Q{}(X)+1", i, i, i + 1) } else { format!("{} DEF Q{}(X)=X", i, i) }
    }).collect();
    l.push("1000 PRINT Q1(1)".into());
    v.push((format!("{}-deep function chain", n), l, over));
    // mixed: k GOSUBs then functions to n
    let k = n / 2;
    let mut l: Vec<String> = (1..=(n - k)).map(|i| {
        if i < n - k { format!("{} DEF Q{}(X)=Q{}(X)+1", i, i, i + 1) } else { format!("{} DEF Q{}(X)=X", i, i) }
    }).collect();
    for i in 1..=k {
        l.push(format!("{} GOSUB {}", 1000 + 10 * i, 1000 + 10 * (i + 1)));
    }
    l.push(format!("{} PRINT Q1(1)", 1000 + 10 * (k + 1)));
    v.push((format!("{} GOSUBs then {} functions", k, n - k), l, over));
    // exactly 32 GOSUB frames open, then one function call (only for the over-the-cap case)
    if over {
        let mut l: Vec<String> = vec!["1 DEF Q1(X)=X".to_string()];
        for i in 1..=32 {
            l.push(format!("{} GOSUB {}", 1000 + 10 * i, 1000 + 10 * (i + 1)));
        }
        l.push(format!("{} PRINT Q1(1)", 1000 + 10 * 33));
        v.push(("32 GOSUBs then 1 function".to_string(), l, true));
    }
    // n distinct open FOR loops
    let mut l: Vec<String> = (1..=n).map(|i| format!("{} FOR V{}=1 TO 2", 10 * i, i)).collect();
    l.push(format!("{} PRINT \"in\"", 10 * (n + 1)));
    v.push((format!("{} distinct open FOR loops", n), l, over));
    v
}

/// The caps while a breakpoint is pending: the stack survives into immediate mode there, so
/// calls typed at the prompt are held to the same limits.
fn breakpoint_cap_sessions() -> (u64, Vec<Violation>) {
    let mut out = vec![];
    let mut calls = 0u64;
    let l = |s: &str| Ev::Line(s.to_string());
    for held in [30usize, 31, 32] {
        for (what, probe) in [("GOSUB", "GOSUB 5000"), ("function call", "X=Q1(1)"), ("GOSUB under IF", "IF 1 THEN GOSUB 5000")] {
            let mut hist = vec![l("1 DEF Q1(X)=X"), l(&format!("10 N=N+1: IF N<{} THEN GOSUB 10", held + 1)), l("20 STOP"), l("5000 RETURN"), Ev::LineToIdle("RUN".into())];
            let mut s = Sess::new();
            for e in &hist {
                let _ = s.apply(e);
                calls += 1;
            }
            let snap = s.it.verif_snapshot();
            if snap.stack.len() != held || snap.breakpoint.is_none() {
                crate::common::machinery(&format!("C16 breakpoint session holds {} frames, expected {}", snap.stack.len(), held));
            }
            let e = Ev::LineToIdle(probe.to_string());
            let r = s.apply(&e);
            hist.push(e);
            calls += 1;
            let after = s.it.verif_snapshot();
            let refused = matches!(&r, CallResult::Err(k, _) if k.starts_with("OutOfMemory"));
            let problem = if let Some(w) = invariant(&after) {
                Some(format!("invariant: {}", w))
            } else if held == 32 && !refused {
                Some(format!("with 32 frames held at a breakpoint, {} typed at the prompt gave {:?}", probe, r))
            } else if held < 32 && r != CallResult::Ok {
                Some(format!("with {} frames held at a breakpoint, {} typed at the prompt gave {:?}", held, probe, r))
            } else {
                None
            };
            if let Some(p) = problem {
                out.push(Violation { signature: format!("at a breakpoint, {}: {}", what, p.chars().filter(|c| !c.is_ascii_digit()).take(80).collect::<String>()), detail: p, case: case_history(&hist, false, false) });
            }
        }
    }
    // frames left behind by immediate GOSUBs that end in a STOP
    {
        let mut hist = vec![l("100 STOP"), l("110 RETURN")];
        let mut s = Sess::new();
        for e in &hist {
            let _ = s.apply(e);
        }
        for i in 1..=40usize {
            let e = Ev::LineToIdle("GOSUB 100".into());
            let r = s.apply(&e);
            hist.push(e);
            calls += 1;
            let snap = s.it.verif_snapshot();
            let refused = matches!(&r, CallResult::Err(k, _) if k.starts_with("OutOfMemory"));
            let problem = if let Some(w) = invariant(&snap) {
                Some(format!("invariant: {}", w))
            } else if snap.stack.len() >= 32 && i > 33 && !refused {
                Some(format!("GOSUB number {} typed at the prompt was accepted with {} frames held", i, snap.stack.len()))
            } else {
                None
            };
            if let Some(p) = problem {
                out.push(Violation { signature: format!("immediate GOSUBs ending in STOP: {}", p.chars().filter(|c| !c.is_ascii_digit()).take(80).collect::<String>()), detail: p, case: case_history(&hist, false, false) });
                break;
            }
        }
    }
    (calls, out)
}

/// Accumulation pass: after every run of every loop / subroutine grammar program the open
/// loops (by variable, in order) and the number of frames must be exactly those of the
/// reference machine, or fewer - anything more is state that accumulated.
fn accumulation_pass(thorough: bool) -> (u64, u64, Vec<Violation>) {
    use crate::c03::{run_model, ModelEnd};
    use crate::progs::*;
    use crate::refmodel::render_program;
    let nest = nest_menu();
    let lp = loop_menu();
    let n = if thorough { 5 } else { 4 };
    let mut programs = 0u64;
    let mut turns = 0u64;
    let mut viol = vec![];
    for menu in [&nest, &lp] {
        let base = menu.len() as u64;
        for len in 1..=n {
            let joins = join_patterns(len, len <= 3);
            let res: Vec<(u64, u64, Vec<Violation>)> = (0..pow(base, len))
                .into_par_iter()
                .map(|i| {
                    let seq: Vec<T> = decode_seq(i, base, len).iter().map(|k| menu[*k].1.clone()).collect();
                    let (mut p, mut t) = (0u64, 0u64);
                    let mut out = vec![];
                    for &j in &joins {
                        let prog = layout(&seq, j);
                        let (m, mend) = run_model(&prog, 1, false);
                        if !matches!(mend, ModelEnd::Ended | ModelEnd::Err(_, _)) {
                            continue;
                        }
                        let lines = render_program(&prog);
                        let (tn, end, bad, s) = run_checked(&lines, 1000);
                        p += 1;
                        t += tn;
                        let mut problem = bad.map(|w| format!("invariant: {}", w));
                        if problem.is_none() && !matches!(end, RunEnd::Cap | RunEnd::Panic(_)) {
                            let snap = s.it.verif_snapshot();
                            let got: Vec<String> = snap.loops.iter().map(|l| l.symbol.clone()).collect();
                            let want: Vec<String> = m.loops.iter().map(|l| l.var.clone()).collect();
                            // state beyond the reference's is state that accumulated (holding less,
                            // e.g. clearing the stacks when a program ends, is not this property's business)
                            let mut it = want.iter();
                            let subsequence = got.iter().all(|g| it.any(|w| w == g));
                            if !subsequence {
                                problem = Some(format!("open loops after the run are {:?}, the reference machine holds only {:?}", got, want));
                            } else if snap.stack.len() > m.frames.len() {
                                problem = Some(format!("{} frames after the run, the reference machine holds {}", snap.stack.len(), m.frames.len()));
                            }
                        }
                        // run it again in the same interpreter: what the first run left open is gone,
                        // the second run ends like the first
                        let mut s = s;
                        if problem.is_none() && !matches!(end, RunEnd::Cap | RunEnd::Panic(_)) && len <= 3 {
                            if s.state() != InterpreterState::Idle {
                                let _ = s.apply(&Ev::Break);
                            }
                            let first: Vec<String> = s.it.verif_snapshot().loops.iter().map(|l| l.symbol.clone()).collect();
                            // a loop opened at the prompt in between is forgotten by RUN like the rest
                            let _ = s.apply(&Ev::Line("FOR Q9=1 TO 2".into()));
                            let mut none = std::iter::empty();
                            s.recs.clear();
                            let end2 = s.run_line("RUN", &mut none, 1000);
                            let second: Vec<String> = s.it.verif_snapshot().loops.iter().map(|l| l.symbol.clone()).collect();
                            if format!("{:?}", end2) != format!("{:?}", end) || second != first {
                                problem = Some(format!("a second RUN in the same interpreter ends {:?} with open loops {:?}; the first ended {:?} with {:?}", end2, second, end, first));
                            }
                        }
                        if let Some(w) = problem {
                            out.push(Violation {
                                signature: format!("grammar program: {}", w.chars().filter(|c| !c.is_ascii_digit()).collect::<String>()),
                                detail: format!("{:?}: {} (run ended {:?}, reference {:?})", lines, w, end, mend),
                                case: case_program(&lines, &[], 0),
                            });
                        }
                    }
                    (p, t, out)
                })
                .collect();
            for (p, t, v) in res {
                programs += p;
                turns += t;
                if viol.len() < 200 {
                    viol.extend(v);
                }
            }
        }
    }
    (programs, turns, viol)
}

pub fn run(thorough: bool) -> Report {
    let mut rep = Report::new("C16", "model_checking");
    let alpha = alphabet();
    let depth = if thorough { 5 } else { 4 };
    // runtime warnings on: what the warning paths store is state too
    let mk = || {
        let mut s = Sess::new();
        s.it.enable_warnings = true;
        s
    };
    let roots = vec![
        vec![],
        vec![
            Ev::Line("5 DEF FNA(X$)=1".into()),
            Ev::Line("6 DEF FNB(X)=X".into()),
            Ev::Line("7 STOP".into()),
            Ev::Line("50 DATA 1,\"a\"".into()),
            Ev::LineToIdle("RUN".into()),
        ],
    ];
    let (stats, viol) = bfs(&mk, &roots, &alpha, depth, &check_transition, None, 40_000_000);
    if viol.is_empty() && stats.events_enabled.len() < alpha.len() {
        machinery("vacuous: not every alphabet event was enabled");
    }
    let mut seen = HashSet::new();
    for v in viol {
        rep.violating_cases += 1;
        if seen.insert(v.signature.clone()) {
            rep.violations.push(v);
        }
    }

    // (2) DIM subscript sweep
    let subs = ["0", "99", "100", "9999", "10000", "4294967295", "9223372036854775807", "18446744073709551616", "-1", "0.9"];
    let mut dim_cases = 0u64;
    let mut dim_outcomes: BTreeMap<String, u64> = BTreeMap::new();
    for arity in 1..=3usize {
        let count = pow(subs.len() as u64, arity);
        dim_cases += count;
        let res: Vec<(String, Option<Violation>)> = (0..count)
            .into_par_iter()
            .map(|i| {
                let idx = decode_seq(i, subs.len() as u64, arity);
                let line = format!("DIM Z({})", idx.iter().map(|k| subs[*k]).collect::<Vec<_>>().join(","));
                let mut s = Sess::new();
                let hist = vec![Ev::Line(line.clone()), Ev::Line("Z(0)=1".into())];
                let r = s.apply(&hist[0]);
                let mut v = None;
                let mut outcome = format!("{:?}", r);
                if let CallResult::Panic(p) = &r {
                    outcome = format!("panic {}", short_panic(p));
                    v = Some(Violation { signature: outcome.clone(), detail: format!("{} panicked: {}", line, p), case: case_history(&hist, false, false) });
                } else {
                    let snap = s.it.verif_snapshot();
                    // expected by the documented cap: product of (max+1) <= 10000 succeeds
                    let maxes: Vec<f64> = idx.iter().map(|k| subs[*k].parse::<f64>().unwrap()).collect();
                    let negative = maxes.iter().any(|m| *m <= -1.0);
                    let mut prod: f64 = 1.0;
                    for m in &maxes {
                        prod *= m.trunc() + 1.0;
                    }
                    let expect = if negative { "Err(IllegalQuantity" } else if prod > 10000.0 { "Err(\"OutOfMemory(ArrayTooLarge)\"" } else { "Ok" };
                    let got_ok = match (&r, expect) {
                        (CallResult::Ok, "Ok") => true,
                        (CallResult::Err(k, _), e) => e.contains(k.as_str()),
                        _ => false,
                    };
                    if let Some(w) = invariant(&snap) {
                        v = Some(Violation { signature: format!("invariant after DIM: {}", w.chars().filter(|c| !c.is_ascii_digit()).collect::<String>()), detail: format!("{}: {}", line, w), case: case_history(&hist, false, false) });
                    } else if !got_ok {
                        v = Some(Violation { signature: format!("DIM outcome {} expected {}", outcome.chars().filter(|c| !c.is_ascii_digit()).collect::<String>(), expect), detail: format!("{} gave {:?}, the documented cap implies {}", line, r, expect), case: case_history(&hist, false, false) });
                    } else if r == CallResult::Ok {
                        // write the last cell and read it back
                        let last = format!("Z({})", maxes.iter().map(|m| format!("{}", m.trunc())).collect::<Vec<_>>().join(","));
                        s.recs.clear();
                        let w = s.apply(&Ev::LineToIdle(format!("{}=7: PRINT {}", last, last)));
                        if w != CallResult::Ok || s.printed() != "7\n" {
                            v = Some(Violation { signature: "last cell of a DIMmed array unusable".into(), detail: format!("{} then {}=7: PRINT gave {:?} {:?}", line, last, w, s.printed()), case: case_history(&hist, false, false) });
                        }
                    }
                }
                (outcome.chars().filter(|c| !c.is_ascii_digit()).collect(), v)
            })
            .collect();
        for (o, v) in res {
            *dim_outcomes.entry(o).or_insert(0) += 1;
            if let Some(v) = v {
                rep.violating_cases += 1;
                if seen.insert(v.signature.clone()) {
                    rep.violations.push(v);
                }
            }
        }
    }

    // (3) cap programs
    let mut cap_runs = 0u64;
    let mut cap_turns = 0u64;
    for n in [31usize, 32, 33] {
        for (name, lines, over) in cap_programs(n) {
            let (turns, end, bad, mut s) = run_checked(&lines, 20000);
            cap_runs += 1;
            cap_turns += turns;
            let case = case_program(&lines, &[], 0);
            if let Some(w) = bad {
                rep.add(Violation { signature: format!("invariant in cap program: {}", w.chars().filter(|c| !c.is_ascii_digit()).collect::<String>()), detail: format!("{}: {}", name, w), case: case.clone() });
            }
            let is_oom = matches!(&end, RunEnd::Error(k, _) if k.starts_with("OutOfMemory"));
            if over != is_oom {
                rep.add(Violation {
                    signature: format!("cap program '{}' {}", name.chars().filter(|c| !c.is_ascii_digit()).collect::<String>(), if over { "exceeded the cap without OUT OF MEMORY" } else { "was refused below the cap" }),
                    detail: format!("{} ended {:?}", name, end),
                    case: case.clone(),
                });
            }
            if is_oom {
                s.recs.clear();
                let r = s.apply(&Ev::Line("PRINT 1".into()));
                if s.state() != InterpreterState::Idle || r != CallResult::Ok || s.printed() != "1\n" {
                    rep.add(Violation { signature: "unusable after OUT OF MEMORY".into(), detail: format!("{}: PRINT 1 gave {:?}", name, r), case });
                }
            }
        }
    }
    let loops: Vec<(&str, Vec<String>, usize)> = vec![
        ("one FOR re-entered by GOTO", vec!["10 FOR I=1 TO 2".into(), "20 X=X+1: IF X<1000 THEN 10".into()], 1),
        ("abandoned loops over 3 variables", vec!["10 FOR A=1 TO 2: FOR B=1 TO 2: FOR C=1 TO 2".into(), "20 X=X+1: IF X<1000 THEN 10".into()], 3),
    ];
    for (name, lines, max_loops) in loops {
        let mut s = Sess::new();
        for l in &lines {
            let _ = s.apply(&Ev::Line(l.clone()));
        }
        let mut r = s.apply(&Ev::Line("RUN".into()));
        let mut worst = 0usize;
        let mut turns = 0u64;
        while r == CallResult::Ok && s.state() == InterpreterState::Running && turns < 200000 {
            let snap = s.it.verif_snapshot();
            worst = worst.max(snap.loops.len());
            if let Some(w) = invariant(&snap) {
                rep.add(Violation { signature: format!("invariant in loop program: {}", w), detail: format!("{}: {}", name, w), case: case_program(&lines, &[], 0) });
                break;
            }
            r = s.apply(&Ev::Cont);
            turns += 1;
        }
        cap_runs += 1;
        cap_turns += turns;
        if worst > max_loops || r != CallResult::Ok {
            rep.add(Violation { signature: format!("{} accumulates state", name), detail: format!("{}: up to {} open loops, ended {:?}", name, worst, r), case: case_program(&lines, &[], 0) });
        }
    }

    {
        let (c, v) = breakpoint_cap_sessions();
        cap_turns += c;
        for x in v {
            rep.add(x);
        }
    }
    let (acc_programs, acc_turns, acc_viol) = accumulation_pass(thorough);
    cap_turns += acc_turns;
    {
        let mut v = acc_viol;
        v.sort_by_key(|x| x.detail.len());
        for x in v {
            rep.violating_cases += 1;
            if seen.insert(x.signature.clone()) {
                rep.violations.push(x);
            }
        }
    }
    let mut cov = stats_json(&stats);
    if let serde_json::Value::Object(m) = &mut cov {
        m.insert("grammar_programs_compared_with_the_reference_loop_and_frame_stacks".into(), json!(acc_programs));
        m.insert("states".into(), json!(stats.states));
        m.insert("transitions".into(), json!(stats.transitions + dim_cases + cap_turns));
        m.insert("traces_validated_against_impl".into(), json!(stats.transitions + dim_cases + cap_turns));
        m.insert("depth_bound".into(), json!(depth));
        m.insert("alphabet_size".into(), json!(alpha.len()));
        m.insert("dim_subscript_tuples".into(), json!(dim_cases));
        m.insert("dim_outcomes".into(), json!(dim_outcomes));
        m.insert("cap_program_runs".into(), json!(cap_runs));
        m.insert("cap_program_turns_checked".into(), json!(cap_turns));
        m.insert("exhaustive".into(), json!(true));
        m.insert("samples".into(), json!([hist_json(&[Ev::Line("10 FOR I=1 TO 2".into()), Ev::Line("20 GOTO 10".into()), Ev::Line("RUN".into()), Ev::Cont, Ev::Cont]), "DIM Z(99,100)", "33 nested GOSUBs"]));
    }
    rep.coverage = cov;
    rep.assumptions = vec!["the invariant is read off the verif-hooks snapshot, which renders every stored value and frame".into()];
    rep
}
