//! C08 — INPUT suspends and resumes without disturbing the rest of the program.
//! Shape B, self-differential: every placement x target x reply x REENTER prefix; the
//! program with `INPUT v` is compared with the same program where INPUT is replaced by
//! STOP (suspension) and by `v = <first item>` (resumption).

use crate::common::*;
use crate::gen::*;
use crate::refmodel::{render_program, MEvent};
use abasic_core::InterpreterState;
use rayon::prelude::*;
use serde_json::json;
use std::collections::{BTreeMap, HashSet};

/// The last two targets have a subscript with a side effect (advances the generator) and a
/// subscript that fails: nothing of the statement may be evaluated before the reply arrives.
const TARGETS: [&str; 6] = ["X", "S$", "A(2)", "T$(1)", "A(INT(RND(1)*3))", "A(\"X\")"];

/// `{I}` marks the INPUT statement.
fn contexts() -> Vec<(&'static str, Vec<&'static str>)> {
    vec![
        ("alone on a line", vec!["10 {I}"]),
        ("after and before other statements", vec!["10 PRINT \"a\";: {I}: PRINT \"b\""]),
        ("under THEN", vec!["10 IF 1 THEN {I}"]),
        ("under ELSE", vec!["10 IF 0 THEN PRINT 1 ELSE {I}"]),
        ("under THEN with an ELSE", vec!["10 IF 1 THEN {I} ELSE PRINT \"NO\"", "20 PRINT \"n\""]),
        ("under THEN followed by a statement", vec!["10 IF 1 THEN {I}: PRINT \"c\""]),
        ("inside FOR", vec!["10 FOR I=1 TO 2", "20 {I}", "30 PRINT I: NEXT I"]),
        ("inside a subroutine", vec!["10 GOSUB 100: PRINT \"r\": GOTO 9990", "100 {I}: RETURN"]),
        (
            "inside a subroutine inside a loop",
            vec!["10 FOR I=1 TO 2: GOSUB 100: NEXT I: GOTO 9990", "100 PRINT \"s\";: {I}", "110 RETURN"],
        ),
        ("two INPUTs on one line", vec!["10 {I}: PRINT \"m\": {I}"]),
        ("last statement of the program", vec!["10 PRINT \"z\"", "20 {I}"]),
        ("after READ with DATA pending", vec!["10 READ Q: {I}: READ R: PRINT Q;R", "20 DATA 4,5"]),
        ("under THEN with an ELSE clause of two statements", vec!["10 IF 1 THEN {I} ELSE PRINT \"NO\": PRINT \"TAIL\"", "20 PRINT \"n\""]),
        ("under THEN whose condition has a side effect", vec!["10 IF RND(1) >= 0 THEN {I}", "20 PRINT \"n\""]),
        ("under ELSE whose condition has a side effect", vec!["10 IF RND(1) < 0 THEN PRINT 1 ELSE {I}"]),
    ]
}

const DUMP: &str = "9990 PRINT \"|\";X;S$;A(0);A(1);A(2);T$(1);I;RND(1)";

struct Reply {
    text: &'static str,
    /// literal for a numeric target (None = unsuitable)
    num: Option<&'static str>,
    /// literal for a string target (None = not compared: numeric-looking)
    string: Option<&'static str>,
    /// whether EXTRA IGNORED is expected (None = unspecified)
    extra: Option<bool>,
}

fn replies() -> Vec<Reply> {
    vec![
        Reply { text: "5", num: Some("5"), string: None, extra: Some(false) },
        Reply { text: " 7 ", num: Some("7"), string: None, extra: Some(false) },
        Reply { text: "-2.5", num: Some("-2.5"), string: None, extra: Some(false) },
        Reply { text: "abc", num: None, string: Some("\"abc\""), extra: Some(false) },
        Reply { text: "", num: None, string: Some("\"\""), extra: Some(false) },
        Reply { text: "\"q r\"", num: None, string: Some("\"q r\""), extra: Some(false) },
        Reply { text: "1,2", num: Some("1"), string: None, extra: Some(true) },
        Reply { text: "3:4", num: Some("3"), string: None, extra: Some(true) },
        Reply { text: "x,y", num: None, string: Some("\"x\""), extra: Some(true) },
        Reply { text: ",", num: None, string: Some("\"\""), extra: None },
        Reply { text: "\"", num: None, string: Some("\"\""), extra: None },
        Reply { text: " w z ", num: None, string: Some("\"w z\""), extra: Some(false) },
        Reply { text: "\"q:r\"", num: None, string: Some("\"q:r\""), extra: Some(false) },
        Reply { text: " \"a,b\" ", num: None, string: Some("\"a,b\""), extra: Some(false) },
        Reply { text: "-0", num: Some("-0"), string: None, extra: Some(false) },
        Reply { text: "+3", num: Some("3"), string: None, extra: Some(false) },
        Reply { text: ".5", num: Some(".5"), string: None, extra: Some(false) },
        Reply { text: "1e2", num: Some("100"), string: None, extra: Some(false) },
        Reply { text: "12345678901234567890.5", num: Some("12345678901234567890.5"), string: None, extra: Some(false) },
    ]
}

fn instantiate(ctx: &[&str], replacement: &str) -> Vec<String> {
    let mut v: Vec<String> = ctx.iter().map(|l| l.replace("{I}", replacement)).collect();
    v.push(DUMP.to_string());
    v
}

fn load(lines: &[String]) -> Sess {
    let mut s = Sess::new();
    for l in lines {
        let _ = s.apply(&Ev::Line(l.clone()));
    }
    s.recs.clear();
    s
}

struct RunOut {
    prints: String,
    extra_ignored: usize,
    reenters: usize,
    requests: usize,
    end: String,
}

fn run_all(lines: &[String], script: &[String]) -> (RunOut, Sess) {
    let mut s = load(lines);
    let mut it = script.iter().cloned().cycle().take(40);
    let end = s.run_line("RUN", &mut it, 2000);
    let out = RunOut {
        prints: s.printed(),
        extra_ignored: s.recs.iter().filter(|r| matches!(r, Rec::ExtraIgnored)).count(),
        reenters: s.recs.iter().filter(|r| matches!(r, Rec::Reenter)).count(),
        requests: s.recs.iter().filter(|r| matches!(r, Rec::Request)).count(),
        end: format!("{:?}", end),
    };
    (out, s)
}

/// Reply scripts of the grammar pass (cycled): suitable, unsuitable-then-suitable, surplus
/// items, empty, quoted. Numeric spellings are canonical, so that what a string variable
/// receives for them is not in question.
pub const SCRIPTS: [&[&str]; 5] = [&["5"], &["abc", "0"], &["1,2", ""], &["0", "x:y", "5"], &["-2", "\"q r\""]];

pub fn script(i: usize, len: usize) -> Vec<String> {
    SCRIPTS[i].iter().cycle().take(len).map(|s| s.to_string()).collect()
}

/// Grammar pass: every statement sequence over the INPUT menu, in the explored layouts, run
/// with every reply script on the real interpreter and on the reference machine.
fn grammar_pass(thorough: bool) -> (u64, u64, BTreeMap<String, u64>, Vec<Violation>) {
    use crate::c03::*;
    use crate::progs::*;
    let menu = input_menu();
    let base = menu.len() as u64;
    // (statements, join mode: 2 = all layouts, 1 = none / all / each single join)
    let plan: Vec<(usize, bool)> = if thorough { vec![(1, true), (2, true), (3, true), (4, true), (5, false)] } else { vec![(1, true), (2, true), (3, true), (4, false)] };
    let mut programs = 0u64;
    let mut with_requests = 0u64;
    let mut ends: BTreeMap<String, u64> = BTreeMap::new();
    let mut viol = vec![];
    for (n, all) in plan {
        let count = pow(base, n);
        let joins = join_patterns(n, all);
        let res: Vec<(u64, u64, Vec<String>, Vec<Violation>)> = (0..count)
            .into_par_iter()
            .map(|i| {
                let idxs = decode_seq(i, base, n);
                let seq: Vec<T> = idxs.iter().map(|k| menu[*k].1.clone()).collect();
                let mut progs = 0u64;
                let mut reqs = 0u64;
                let mut ends = vec![];
                let mut out = vec![];
                for &j in &joins {
                    let prog = layout(&seq, j);
                    for si in 0..SCRIPTS.len() {
                        let replies = script(si, 8);
                        let (mut cap, mut undef) = (false, false);
                        let (problem, m, mend) = compare_script(&prog, &replies, &mut cap, &mut undef);
                        progs += 1;
                        if m.events.iter().any(|e| matches!(e, MEvent::Reenter | MEvent::ExtraIgnored)) || matches!(mend, ModelEnd::NeedInput) {
                            reqs += 1;
                        }
                        ends.push(match &mend {
                            ModelEnd::Err(k, _) => format!("Err({})", k),
                            o => format!("{:?}", o),
                        });
                        if let Some((sig, detail)) = problem {
                            let lines = render_program(&prog);
                            out.push(Violation {
                                signature: format!("{} with replies {:?} :: {}", lines.join(" | "), SCRIPTS[si], sig),
                                detail,
                                case: case_program(&lines, &replies, 1),
                            });
                        }
                    }
                }
                (progs, reqs, ends, out)
            })
            .collect();
        for (p, r, e, v) in res {
            programs += p;
            with_requests += r;
            for x in e {
                *ends.entry(x).or_insert(0) += 1;
            }
            if viol.len() < 2000 {
                viol.extend(v);
            }
        }
    }
    (programs, with_requests, ends, viol)
}

/// Reply-shape sweep: every reply of <= n atoms to a numeric, a string and an array-cell
/// INPUT, against the reference machine (what is stored, REENTER, EXTRA IGNORED).
fn reply_sweep(thorough: bool) -> (u64, Vec<Violation>) {
    use crate::c03::*;
    use crate::refmodel::*;
    let atoms = ["1", "0", "-", "+", ".", "e", "\"", ",", ":", " ", "x", "\u{e9}", "5"];
    let n = if thorough { 5 } else { 4 };
    let base = atoms.len() as u64;
    let targets: Vec<LVal> = vec![lv("X"), lv("Y$"), lvi("A", vec![num(2.0)])];
    let mut count = 0u64;
    let mut viol = vec![];
    for len in 0..=n {
        let c = pow(base, len);
        count += c * targets.len() as u64;
        let res: Vec<Violation> = (0..c)
            .into_par_iter()
            .flat_map_iter(|i| {
                let reply: String = decode_seq(i, base, len).iter().map(|k| atoms[*k]).collect();
                let mut out = vec![];
                // An empty item next to a separator (",1", "1,", ",,"): whether it counts as an
                // item is not fixed by the property; such replies are left out.
                if reply.matches('"').count() >= 3 {
                    return out.into_iter(); // a stray quote after a closed literal: an empty item again
                }
                if reply.contains(|c| c == ',' || c == ':') && reply.split(|c| c == ',' || c == ':').any(|p| p.trim().trim_matches('"').trim().is_empty()) {
                    return out.into_iter();
                }
                for t in &targets {
                    let mut prog = ProgramAst::new();
                    prog.insert(10, vec![Stmt::Input(t.clone())]);
                    prog.insert(20, vec![Stmt::Print(vec![PItem::E(st("<")), PItem::Semi, PItem::E(var("X")), PItem::Semi, PItem::E(var("Y$")), PItem::Semi, PItem::E(call("A", vec![num(2.0)])), PItem::Semi, PItem::E(st(">"))])]);
                    let replies = vec![reply.clone(), "7".to_string()];
                    let (mut cap, mut undef) = (false, false);
                    let (problem, _, _) = compare_script(&prog, &replies, &mut cap, &mut undef);
                    if let Some((sig, detail)) = problem {
                        let lines = render_program(&prog);
                        out.push(Violation {
                            signature: format!("reply {:?} to {} :: {}", reply, lines[0], sig),
                            detail,
                            case: case_program(&lines, &replies, 1),
                        });
                    }
                }
                out.into_iter()
            })
            .collect();
        if viol.len() < 3000 {
            viol.extend(res);
        }
    }
    // Blanks next to a separator outside quotes are insignificant: each reply below must have
    // the outcome of its blank-free form, whatever that outcome is.
    {
        let forms: Vec<(&str, Vec<&str>)> = vec![
            (",5", vec![" ,5", ", 5", "  ,  5 "]),
            ("5,6", vec!["5 ,6", "5, 6", " 5 , 6 "]),
            ("x,y", vec!["x ,y", "x, y"]),
            ("\"yes\",", vec!["\"yes\" ,", "\"yes\", "]),
            ("\"a\",\"b\"", vec!["\"a\" ,\"b\"", "\"a\", \"b\"", " \"a\" , \"b\" "]),
            ("7:8", vec!["7 :8", "7: 8"]),
            (",hello", vec!["  , hello"]),
            // blanks that are not ASCII are blanks all the same
            ("\"yes\"", vec!["\"yes\"\u{3000}", "\u{2003}\"yes\"", "\"yes\"\u{a0}"]),
            ("7,", vec!["7,\u{a0}", "7\u{a0},"]),
            (",21", vec!["\u{a0}, 21", "\u{3000},21"]),
            ("5", vec!["5\u{a0}", "\u{3000}5", "\u{2003}5\u{2003}"]),
            ("\"A, B\"", vec!["\u{2003}\"A, B\""]),
        ];
        for t in &targets {
            for (plain, variants) in &forms {
                let run = |reply: &str| -> (Vec<String>, String) {
                    let mut prog = ProgramAst::new();
                    prog.insert(10, vec![Stmt::Input(t.clone())]);
                    prog.insert(20, vec![Stmt::Print(vec![PItem::E(st("<")), PItem::Semi, PItem::E(var("X")), PItem::Semi, PItem::E(var("Y$")), PItem::Semi, PItem::E(call("A", vec![num(2.0)])), PItem::Semi, PItem::E(st(">"))])]);
                    let lines = render_program(&prog);
                    let mut s = Sess::new();
                    let _ = load_program(&mut s, &lines);
                    s.recs.clear();
                    let mut it = vec![reply.to_string(), "7".to_string()].into_iter();
                    let end = s.run_line("RUN", &mut it, 200);
                    let tr: Vec<String> = subject_transcript(&s.recs).into_iter().filter(|x| !x.starts_with("reply:")).collect();
                    (tr, format!("{:?}", end))
                };
                let want = run(plain);
                for v in variants {
                    count += 1;
                    let got = run(v);
                    if got != want {
                        viol.push(Violation {
                            signature: format!("reply {:?} to INPUT {} :: blanks next to a separator change the outcome", v, t.render()),
                            detail: format!("reply {:?} gives {:?}; the same reply without those blanks ({:?}) gives {:?}", v, got, plain, want),
                            case: case_program(&[format!("10 INPUT {}", t.render())], &[v.to_string(), "7".to_string()], 1),
                        });
                    }
                }
            }
        }
    }
    (count, viol)
}

pub fn run(thorough: bool) -> Report {
    let mut rep = Report::new("C08", "exploration");
    let ctxs = contexts();
    let reps = replies();
    let mut jobs = vec![];
    for (ci, _) in ctxs.iter().enumerate() {
        for (ti, _) in TARGETS.iter().enumerate() {
            jobs.push((ci, ti));
        }
    }
    let results: Vec<(u64, u64, Vec<Violation>, Vec<String>)> = jobs
        .par_iter()
        .map(|(ci, ti)| {
            let (cname, ctx) = &ctxs[*ci];
            let target = TARGETS[*ti];
            let is_str = target.contains('$');
            let mut evals = 0u64;
            let mut nontrivial = 0u64;
            let mut out = vec![];
            let mut classes = vec![];
            let with_input = instantiate(ctx, &format!("INPUT {}", target));
            let mk = |sig: String, detail: String, hist: Vec<Ev>| Violation {
                signature: format!("INPUT {} {}: {}", target, cname, sig),
                detail,
                case: case_history(&hist, false, false),
            };
            let base_hist: Vec<Ev> = with_input.iter().map(|l| Ev::Line(l.clone())).chain([Ev::LineToIdle("RUN".into())]).collect();

            // (a) suspension: state at the first request equals the STOP variant's state
            {
                evals += 1;
                let mut s = load(&with_input);
                let mut none = std::iter::empty();
                let end = s.run_line("RUN", &mut none, 2000);
                let with_stop = instantiate(ctx, "STOP");
                let mut t = load(&with_stop);
                let end_t = t.run_line("RUN", &mut none, 2000);
                if end != RunEnd::NoReply || s.state() != InterpreterState::AwaitingInput {
                    out.push(mk("did not suspend awaiting input".into(), format!("run ended {:?} in state {:?}", end, s.state()), base_hist.clone()));
                } else if end_t != RunEnd::Idle {
                    out.push(mk("STOP variant did not stop".into(), format!("{:?}", end_t), base_hist.clone()));
                } else {
                    let a = s.it.verif_snapshot();
                    let b = t.it.verif_snapshot();
                    let pa = s.printed();
                    let pb = t.printed();
                    if pa != pb {
                        out.push(mk("output before the request differs".into(), format!("at the request {:?} had been printed; with STOP in its place {:?}", pa, pb), base_hist.clone()));
                    } else if a.variables != b.variables || a.arrays != b.arrays || a.loops != b.loops || a.stack != b.stack || a.data_cursor != b.data_cursor {
                        out.push(mk("state at the request differs from the state before INPUT".into(), format!("awaiting input: vars {:?} arrays {:?} loops {:?} stack {:?} data {:?}; at STOP: vars {:?} arrays {:?} loops {:?} stack {:?} data {:?}", a.variables, a.arrays, a.loops, a.stack, a.data_cursor, b.variables, b.arrays, b.loops, b.stack, b.data_cursor), base_hist.clone()));
                    }
                }
            }

            // a target whose subscript fails is not a variable a reply could suit: only the
            // suspension clause and the plain reply are meaningful for it
            let failing_target = target.contains("\"X\"");
            for r in &reps {
                let lit = if is_str { r.string } else { r.num };
                if failing_target && lit.is_none() {
                    continue;
                }
                if is_str && lit.is_none() {
                    continue;
                }
                match lit {
                    Some(lit) => {
                        // (b) resumption: equals the assignment variant; (c) with REENTER prefixes
                        let assigned = instantiate(ctx, &format!("{} = {}", target, lit));
                        let (want, _) = run_all(&assigned, &[]);
                        let prefixes: Vec<Vec<&str>> = if is_str || failing_target { vec![vec![]] } else { vec![vec![], vec!["abc"], vec!["abc", ""], vec!["\"", "x,y"]] };
                        for pre in prefixes {
                            evals += 1;
                            nontrivial += 1;
                            let mut script: Vec<String> = pre.iter().map(|s| s.to_string()).collect();
                            script.push(r.text.to_string());
                            // later requests (loops, second INPUT) get the suitable reply only
                            let mut s = load(&with_input);
                            let mut hist = base_hist.clone();
                            let mut first = script.clone().into_iter();
                            let good = r.text.to_string();
                            let mut it = std::iter::from_fn(|| first.next().or_else(|| Some(good.clone()))).take(40);
                            let end = s.run_line("RUN", &mut it, 2000);
                            for rec in &s.recs {
                                if let Rec::Reply(t) = rec {
                                    hist.push(Ev::Input(t.clone()));
                                }
                            }
                            let got = RunOut {
                                prints: s.printed(),
                                extra_ignored: s.recs.iter().filter(|x| matches!(x, Rec::ExtraIgnored)).count(),
                                reenters: s.recs.iter().filter(|x| matches!(x, Rec::Reenter)).count(),
                                requests: s.recs.iter().filter(|x| matches!(x, Rec::Request)).count(),
                                end: format!("{:?}", end),
                            };
                            classes.push(format!("{}|{}", got.end.chars().take(12).collect::<String>(), got.reenters));
                            // whatever happened to the statement, the reply has been used up
                            if s.state() == InterpreterState::Idle {
                                if let Some(p) = s.it.verif_snapshot().pending_input {
                                    out.push(mk(
                                        "a consumed reply is still pending after the run".into(),
                                        format!("replies {:?}: the run ended {} with the reply {:?} still pending (the next INPUT would take it without asking)", script, got.end, p),
                                        hist.clone(),
                                    ));
                                    continue;
                                }
                            }
                            if got.end != want.end || got.prints != want.prints {
                                out.push(mk(
                                    format!("reply {:?} is not equivalent to {} = {}", r.text, target, lit),
                                    format!("replies {:?}: printed {:?}, ended {}; with the assignment in place of INPUT: printed {:?}, ended {}", script, got.prints, got.end, want.prints, want.end),
                                    hist.clone(),
                                ));
                                continue;
                            }
                            if got.reenters != pre.len() {
                                out.push(mk(
                                    format!("REENTER count after {} unsuitable replies", pre.len()),
                                    format!("replies {:?}: {} REENTER records", script, got.reenters),
                                    hist.clone(),
                                ));
                            }
                            let good_requests = got.requests.saturating_sub(pre.len());
                            if failing_target {
                                continue; // the statement fails after the reply: no record is due
                            }
                            if let Some(x) = r.extra {
                                let expect = if x { good_requests } else { 0 };
                                if got.extra_ignored != expect {
                                    out.push(mk(
                                        format!("EXTRA IGNORED count for reply {:?}", r.text),
                                        format!("replies {:?}: {} EXTRA IGNORED records, expected {}", script, got.extra_ignored, expect),
                                        hist.clone(),
                                    ));
                                }
                            }
                            // (c) each unsuitable reply: exactly one REENTER, nothing printed, same request again
                            if !pre.is_empty() {
                                let mut s2 = load(&with_input);
                                let mut none = std::iter::empty();
                                let _ = s2.run_line("RUN", &mut none, 2000);
                                for bad in &pre {
                                    s2.recs.clear();
                                    let before = s2.it.verif_snapshot();
                                    let _ = s2.apply(&Ev::Input(bad.to_string()));
                                    let mut none = std::iter::empty();
                                    let e = s2.run_on(&mut none, 2000);
                                    let kinds: Vec<String> = s2.recs.iter().map(|x| format!("{:?}", x)).collect();
                                    let after = s2.it.verif_snapshot();
                                    let only_reenter = kinds == vec![format!("Reply({:?})", bad), "Reenter".to_string(), "Request".to_string()];
                                    if e != RunEnd::NoReply || !only_reenter {
                                        out.push(mk(format!("unsuitable reply {:?} did not give exactly REENTER + the same request", bad), format!("records {:?}, ended {:?}", kinds, e), hist.clone()));
                                        break;
                                    }
                                    if after.variables != before.variables || after.arrays != before.arrays || after.rng_state != before.rng_state || after.location_line != before.location_line || after.location_token_index != before.location_token_index {
                                        out.push(mk(format!("unsuitable reply {:?} changed program state", bad), format!("before {:?} after {:?}", before, after), hist.clone()));
                                        break;
                                    }
                                }
                            }
                        }
                    }
                    None => {
                        // unsuitable for a numeric target: covered as REENTER prefix; also alone:
                        evals += 1;
                        let mut s = load(&with_input);
                        let mut it = vec![r.text.to_string()].into_iter();
                        let end = s.run_line("RUN", &mut it, 2000);
                        let n = s.recs.iter().filter(|x| matches!(x, Rec::Reenter)).count();
                        if end != RunEnd::NoReply || n != 1 {
                            out.push(mk(format!("text reply {:?} to a numeric variable", r.text), format!("ended {:?} with {} REENTER records", end, n), base_hist.clone()));
                        }
                    }
                }
            }
            (evals, nontrivial, out, classes)
        })
        .collect();
    let mut evals = 0u64;
    let mut nontrivial = 0u64;
    let mut classes: BTreeMap<String, u64> = BTreeMap::new();
    let mut seen = HashSet::new();
    for (e, n, v, c) in results {
        evals += e;
        nontrivial += n;
        for x in c {
            *classes.entry(x).or_insert(0) += 1;
        }
        for x in v {
            rep.violating_cases += 1;
            if seen.insert(x.signature.clone()) {
                rep.violations.push(x);
            }
        }
    }
    if classes.len() < 2 {
        machinery("vacuous: a single outcome class");
    }
    let (rs, rs_viol) = reply_sweep(thorough);
    evals += rs;
    nontrivial += rs;
    {
        let mut v = rs_viol;
        v.sort_by_key(|x| x.signature.len());
        let total = v.len();
        for x in v {
            rep.violating_cases += 1;
            if rep.violations.len() < 60 {
                rep.violations.push(x);
            }
        }
        let _ = total;
    }
    // A stored reply is the value an assignment would have stored, also under = and <> (which a
    // listing of the variable cannot tell apart); and the records of a run with tracing on, minus
    // the trace records, are those of the run with tracing off.
    {
        let run = |lines: &[String], immediate: Option<&str>, replies: &[&str], tracing: bool| -> (Vec<String>, Vec<Ev>) {
            let mut s = Sess::new();
            s.it.enable_tracing = tracing;
            let mut hist: Vec<Ev> = lines.iter().map(|l| Ev::Line(l.clone())).collect();
            let _ = load_program(&mut s, lines);
            s.recs.clear();
            let mut it = replies.iter().map(|r| r.to_string());
            let first = immediate.unwrap_or("RUN");
            hist.push(Ev::LineToIdle(first.to_string()));
            let end = s.run_line(first, &mut it, 300);
            let mut t: Vec<String> = s.recs.iter().filter(|r| !matches!(r, Rec::Trace(_) | Rec::Reply(_))).map(|r| format!("{:?}", r)).collect();
            t.push(format!("{:?}", end));
            (t, hist)
        };
        // (reply, the value its first item stands for)
        let pairs: [(&str, &str); 7] = [("5", "5"), (" 42 , 7", "42"), ("abc", "abc"), ("\"q r\"", "q r"), ("-7", "-7"), ("0.5", "0.5"), ("x y", "x y")];
        for target in ["A$", "N$(3)"] {
            for (reply, item) in pairs {
                evals += 1;
                nontrivial += 1;
                let tail = vec![
                    format!("20 IF {} = \"{}\" THEN PRINT \"same\" ELSE PRINT \"differs\"", target, item),
                    format!("30 PRINT {t} <> \"{i}\"; {t} < \"{i}\"; {t} >= \"{i}\"; \"{i}\" = {t}; {t} = {t}", t = target, i = item),
                    format!("40 B$ = {}: PRINT B$ = \"{}\"", target, item),
                ];
                let mut with_input = vec![format!("10 INPUT {}", target)];
                with_input.extend(tail.clone());
                let mut with_let = vec![format!("10 {} = \"{}\"", target, item)];
                with_let.extend(tail);
                let (got, hist) = run(&with_input, None, &[reply], false);
                let (want, _) = run(&with_let, None, &[], false);
                let got_prints: Vec<&String> = got.iter().filter(|x| x.starts_with("Print")).collect();
                let want_prints: Vec<&String> = want.iter().filter(|x| x.starts_with("Print")).collect();
                if got_prints != want_prints {
                    rep.add(Violation {
                        signature: format!("INPUT {} reply {:?}: comparisons differ from those after the assignment", target, reply),
                        detail: format!("{:?} with reply {:?} prints {:?}; {:?} prints {:?}", with_input, reply, got_prints, with_let, want_prints),
                        case: case_history(&hist, false, false),
                    });
                }
            }
        }
        let traced: Vec<(Vec<&str>, Option<&str>, Vec<&str>)> = vec![
            (vec!["10 INPUT X", "20 PRINT X"], None, vec!["abc", "x", "5"]),
            (vec!["10 IF 1 THEN INPUT X ELSE PRINT 0", "20 PRINT X"], None, vec!["abc", "5"]),
            (vec!["10 FOR I = 1 TO 2: INPUT A(I): NEXT I", "20 PRINT A(1);A(2)"], None, vec!["q", "1,2", "r", "3"]),
            (vec!["10 PRINT \"AGE\";: INPUT Y$: PRINT Y$"], None, vec!["7"]),
            (vec![], Some("PRINT \"AGE\";: INPUT A: PRINT A"), vec!["old", "7"]),
            (vec!["10 GOSUB 100: PRINT X: END", "100 PRINT \"T\";: INPUT X: RETURN"], None, vec!["", "5"]),
        ];
        for (lines, immediate, replies) in traced {
            evals += 1;
            nontrivial += 1;
            let lines: Vec<String> = lines.iter().map(|l| l.to_string()).collect();
            let (off, _) = run(&lines, immediate, &replies, false);
            let (on, hist) = run(&lines, immediate, &replies, true);
            if on != off {
                rep.add(Violation {
                    signature: format!("tracing changes what an INPUT run shows: {:?}", immediate.map(|s| s.to_string()).unwrap_or_else(|| lines[0].clone())),
                    detail: format!("{:?} {:?} with replies {:?}: tracing off {:?}; tracing on, trace records removed {:?}", lines, immediate, replies, off, on),
                    case: case_history(&hist, false, true),
                });
            }
        }
    }
    let (gp, gp_req, gp_ends, gp_viol) = grammar_pass(thorough);
    evals += gp;
    nontrivial += gp_req;
    if gp_req * 4 < gp {
        machinery("vacuous: fewer than a quarter of the grammar-pass runs saw REENTER, EXTRA IGNORED or an unanswered request");
    }
    {
        // shortest programs first, one violation per problem kind and first template
        let mut v = gp_viol;
        v.sort_by_key(|x| x.signature.len());
        for x in v {
            rep.violating_cases += 1;
            let kind = x.signature.rsplit(" :: ").next().unwrap_or("").to_string();
            if seen.insert(format!("grammar {}", kind)) {
                rep.violations.push(x);
            }
        }
    }
    rep.coverage = json!({
        "evaluations": evals,
        "distinct_nontrivial": nontrivial,
        "rule": "every (placement, target, reply, REENTER prefix) combination is a distinct case; non-trivial = a suitable reply was eventually consumed and the whole run was compared with the assignment variant",
        "exhaustive": true,
        "placements": ctxs.iter().map(|c| c.0).collect::<Vec<_>>(),
        "targets": TARGETS,
        "replies": reps.iter().map(|r| r.text).collect::<Vec<_>>(),
        "reenter_prefixes": [0, 1, 2],
        "outcome_classes": classes,
        "reply_shapes_swept": rs,
        "grammar_pass_runs": gp,
        "grammar_pass_runs_with_reenter_extra_or_open_request": gp_req,
        "grammar_pass_reference_ends": gp_ends,
        "grammar_pass_menu": crate::progs::input_menu().iter().map(|m| m.0).collect::<Vec<_>>(),
        "grammar_pass_reply_scripts": SCRIPTS,
        "samples": [{"program": instantiate(&ctxs[4].1, "INPUT A(2)"), "replies": ["abc", "1,2"]}],
    });
    rep.assumptions = vec![
        "what text a numeric-looking reply becomes in a string variable is not compared".into(),
        "whether a reply consisting only of separators counts as having surplus items is not compared".into(),
    ];
    rep
}
