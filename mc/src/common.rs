//! Shared plumbing: driving the real interpreter turn by turn, transcripts, panic capture,
//! violations, evidence files.

use abasic_core::{
    Interpreter, InterpreterError, InterpreterOutput, InterpreterState, TracedInterpreterError,
};
use serde_json::{json, Value as J};
use std::cell::RefCell;
use std::panic::{catch_unwind, AssertUnwindSafe};
use std::time::Instant;

thread_local! {
    static LAST_PANIC: RefCell<Option<String>> = RefCell::new(None);
    static IN_GUARDED: std::cell::Cell<u32> = std::cell::Cell::new(0);
}

// ---------------------------------------------------------------------------------------
// Wedge detection: every worker thread publishes the host calls of its current session and
// when the call in flight started; a watchdog thread turns a call that does not return
// within the limit into a VIOLATION (with the history as the replay) and ends the process.

pub struct WatchSlot {
    pub started: Option<Instant>,
    pub events: Vec<String>,
    pub note: String,
    /// kernel id of the worker thread (its CPU time is read from /proc by the watchdog)
    pub tid: u64,
}

/// CPU time (user + system) consumed so far by thread `tid` of this process, in seconds.
fn thread_cpu_seconds(tid: u64) -> Option<f64> {
    let stat = std::fs::read_to_string(format!("/proc/self/task/{}/stat", tid)).ok()?;
    // fields after the parenthesised command name; utime and stime are fields 14 and 15
    let rest = stat.rsplit_once(')')?.1;
    let f: Vec<&str> = rest.split_whitespace().collect();
    let utime: f64 = f.get(11)?.parse().ok()?;
    let stime: f64 = f.get(12)?.parse().ok()?;
    Some((utime + stime) / 100.0)
}

static SLOTS: std::sync::Mutex<Vec<std::sync::Arc<std::sync::Mutex<WatchSlot>>>> = std::sync::Mutex::new(vec![]);
pub static HOST_CALLS: std::sync::atomic::AtomicU64 = std::sync::atomic::AtomicU64::new(0);

thread_local! {
    static MY_SLOT: std::sync::Arc<std::sync::Mutex<WatchSlot>> = {
        let tid = std::fs::read_link("/proc/thread-self").ok().and_then(|p| p.file_name().and_then(|n| n.to_str().and_then(|s| s.parse::<u64>().ok()))).unwrap_or(0);
        let s = std::sync::Arc::new(std::sync::Mutex::new(WatchSlot { started: None, events: vec![], note: String::new(), tid }));
        SLOTS.lock().unwrap().push(s.clone());
        s
    };
}

pub fn watch_reset() {
    MY_SLOT.with(|s| {
        let mut g = s.lock().unwrap();
        g.events.clear();
        g.started = None;
    });
}

pub fn watch_begin(ev: &Ev) {
    MY_SLOT.with(|s| {
        let mut g = s.lock().unwrap();
        if g.events.len() < 4000 {
            g.events.push(ev.to_json().to_string());
        }
        g.started = Some(Instant::now());
    });
}

pub fn watch_end() {
    MY_SLOT.with(|s| s.lock().unwrap().started = None);
}

/// For subjects that are not driven through `Sess` (tokenizer, analyzer): `text` is the input.
pub fn watch_text<T>(kind: &str, text: &str, f: impl FnOnce() -> T) -> T {
    MY_SLOT.with(|s| {
        let mut g = s.lock().unwrap();
        g.events.clear();
        g.note = format!("{}:{}", kind, text);
        g.started = Some(Instant::now());
    });
    let r = f();
    MY_SLOT.with(|s| {
        let mut g = s.lock().unwrap();
        g.started = None;
        g.note.clear();
    });
    r
}

/// Starts the watchdog. A call that has been in flight for more than `limit_s` seconds *of its
/// thread's CPU time* is a violation of "always hands control back": it is reported and the
/// process exits with status 1. (The subject computes and never blocks, so CPU time is what a
/// call that does not return consumes; wall time alone would turn a busy machine, on which a
/// worker may not be scheduled for a long while, into a verdict. Where the thread's CPU time
/// cannot be read, ten times the limit in wall time is used.)
pub fn start_watchdog(property: String, tier: String, level: String, limit_s: u64) {
    std::thread::spawn(move || {
        // call in flight (identified by its start instant) -> CPU seconds of its thread when first seen
        let mut first_seen: std::collections::HashMap<(u64, Instant), f64> = std::collections::HashMap::new();
        loop {
        std::thread::sleep(std::time::Duration::from_millis(500));
        let slots: Vec<_> = SLOTS.lock().unwrap().iter().cloned().collect();
        let mut live: std::collections::HashSet<(u64, Instant)> = std::collections::HashSet::new();
        for s in slots {
            let (stuck, events, note) = {
                let g = s.lock().unwrap();
                let stuck = match g.started {
                    Some(t) if t.elapsed().as_secs() >= 1 => {
                        live.insert((g.tid, t));
                        match thread_cpu_seconds(g.tid) {
                            Some(now) => {
                                let base = *first_seen.entry((g.tid, t)).or_insert(now);
                                now - base >= limit_s as f64
                            }
                            None => t.elapsed().as_secs() >= 10 * limit_s,
                        }
                    }
                    _ => false,
                };
                (stuck, g.events.clone(), g.note.clone())
            };
            if !stuck {
                continue;
            }
            let dir = format!("{}/replays/{}", crate::VERIF_DIR, property);
            let _ = std::fs::create_dir_all(&dir);
            let path = format!("{}/v000.json", dir);
            let evs: Vec<J> = events.iter().filter_map(|e| serde_json::from_str(e).ok()).collect();
            let case = if note.is_empty() { json!({"kind":"history","events":evs,"warnings":false,"tracing":false}) } else { json!({"kind":"text","input":note}) };
            let last = events.last().cloned().unwrap_or_else(|| note.clone());
            let body = json!({"property": property, "signature": format!("call did not return within {} s: {}", limit_s, truncate(&last, 120)), "detail": "the last host call of this history (or the analysis / tokenization of this text) did not hand control back", "case": case});
            let _ = std::fs::write(&path, serde_json::to_string_pretty(&body).unwrap());
            println!("VIOLATION property={} replay={}", property, path);
            println!("  signature: call did not return within {} s: {}", limit_s, truncate(&last, 200));
            let n = HOST_CALLS.load(std::sync::atomic::Ordering::Relaxed).max(2);
            let ev = json!({
                "property_id": property, "tier": if tier == "thorough" { "thorough" } else { "quick" }, "seed": 0, "level": level,
                "coverage": {"evaluations": n, "distinct_nontrivial": n, "rule": "run aborted by the wedge watchdog: a subject call did not return; counts are host calls made before the abort", "samples": [case], "states": n, "transitions": n, "traces_validated_against_impl": n},
                "assumptions": ["aborted run"], "wall_s": limit_s as f64, "violations": 1,
            });
            let _ = std::fs::write(format!("{}/evidence/{}.json", crate::VERIF_DIR, property), serde_json::to_string_pretty(&ev).unwrap());
            std::process::exit(1);
        }
        first_seen.retain(|k, _| live.contains(k));
        }
    });
}

/// Installs a panic hook that records the message per thread instead of printing it.
pub fn install_quiet_panic_hook() {
    std::panic::set_hook(Box::new(|info| {
        let msg = if let Some(s) = info.payload().downcast_ref::<&str>() {
            s.to_string()
        } else if let Some(s) = info.payload().downcast_ref::<String>() {
            s.clone()
        } else {
            "<non-string panic>".to_string()
        };
        let loc = info
            .location()
            .map(|l| format!("{}:{}", l.file(), l.line()))
            .unwrap_or_default();
        // A panic outside a guarded subject call is a bug of the machinery: show it.
        if IN_GUARDED.with(|g| g.get()) == 0 {
            eprintln!("MACHINERY-ERROR: harness panicked: {} @ {}", msg, loc);
        }
        LAST_PANIC.with(|p| *p.borrow_mut() = Some(format!("{} @ {}", msg, loc)));
    }));
}

/// Runs `f`, turning a panic into `Err(message)`.
pub fn guarded<T>(f: impl FnOnce() -> T) -> Result<T, String> {
    IN_GUARDED.with(|g| g.set(g.get() + 1));
    let r = catch_unwind(AssertUnwindSafe(f));
    IN_GUARDED.with(|g| g.set(g.get().saturating_sub(1)));
    match r {
        Ok(v) => Ok(v),
        Err(_) => Err(LAST_PANIC
            .with(|p| p.borrow_mut().take())
            .unwrap_or_else(|| "<panic>".into())),
    }
}

/// Strips the source path prefix so panic signatures are stable: keeps `file.rs:line`.
pub fn short_panic(msg: &str) -> String {
    // message @ /repo/abasic-core/src/x.rs:12  ->  message @ x.rs
    let (m, loc) = match msg.rsplit_once(" @ ") {
        Some((m, l)) => (m, l),
        None => (msg, ""),
    };
    let file = loc.rsplit('/').next().unwrap_or("");
    let file = file.split(':').next().unwrap_or("");
    let m: String = m.chars().take(60).collect();
    format!("{} @ {}", m, file)
}

#[derive(Clone, Debug, PartialEq)]
pub enum Rec {
    Print(String),
    Break(Option<u64>),
    Warning(String, Option<u64>),
    Trace(u64),
    ExtraIgnored,
    Reenter,
    /// The interpreter asked for input.
    Request,
    /// The host supplied this reply.
    Reply(String),
    Error(String, Option<u64>),
    Panic(String),
}

pub fn err_kind(e: &InterpreterError) -> String {
    format!("{:?}", e)
}

pub fn err_line(e: &TracedInterpreterError) -> Option<u64> {
    e.location.and_then(|l| l.as_numbered()).map(|n| n.line)
}

pub fn convert_output(o: InterpreterOutput) -> Rec {
    match o {
        InterpreterOutput::Print(s) => Rec::Print(s),
        InterpreterOutput::Break(l) => Rec::Break(l),
        InterpreterOutput::Warning(m, l) => Rec::Warning(m, l),
        InterpreterOutput::Trace(l) => Rec::Trace(l),
        InterpreterOutput::ExtraIgnored => Rec::ExtraIgnored,
        InterpreterOutput::Reenter => Rec::Reenter,
    }
}

/// One host call.
#[derive(Clone, Debug, PartialEq, Eq, Hash, PartialOrd, Ord)]
pub enum Ev {
    Line(String),
    /// Submit a line and keep continuing until the interpreter is no longer running
    /// (macro event: one `start_evaluating` plus `continue_evaluating` calls, capped).
    LineToIdle(String),
    Cont,
    Break,
    Input(String),
    /// Replace the interpreter with a fresh one (what front ends do after NEW).
    Replace,
    /// `Interpreter::stop_evaluating()`: abandon whatever is running or awaited and go idle.
    StopEvaluating,
    Randomize(u64),
}

impl Ev {
    pub fn to_json(&self) -> J {
        match self {
            Ev::Line(l) => json!({"line": l}),
            Ev::LineToIdle(l) => json!({"line_to_idle": l}),
            Ev::Cont => json!("continue"),
            Ev::Break => json!("break"),
            Ev::Input(s) => json!({"input": s}),
            Ev::Replace => json!("replace"),
            Ev::StopEvaluating => json!("stop_evaluating"),
            Ev::Randomize(s) => json!({"randomize": s.to_string()}),
        }
    }
    pub fn from_json(j: &J) -> Option<Ev> {
        if let Some(s) = j.as_str() {
            return match s {
                "continue" => Some(Ev::Cont),
                "break" => Some(Ev::Break),
                "replace" => Some(Ev::Replace),
                "stop_evaluating" => Some(Ev::StopEvaluating),
                _ => None,
            };
        }
        if let Some(l) = j.get("line") {
            return Some(Ev::Line(l.as_str()?.to_string()));
        }
        if let Some(l) = j.get("line_to_idle") {
            return Some(Ev::LineToIdle(l.as_str()?.to_string()));
        }
        if let Some(l) = j.get("input") {
            return Some(Ev::Input(l.as_str()?.to_string()));
        }
        if let Some(l) = j.get("randomize") {
            return Some(Ev::Randomize(l.as_str()?.parse().ok()?));
        }
        None
    }
}

pub fn hist_json(h: &[Ev]) -> J {
    J::Array(h.iter().map(|e| e.to_json()).collect())
}

/// Which events the turn-taking protocol allows in a state.
pub fn enabled(state: InterpreterState, ev: &Ev) -> bool {
    match (state, ev) {
        (InterpreterState::Idle, Ev::Line(_)) => true,
        (InterpreterState::Idle, Ev::LineToIdle(_)) => true,
        (InterpreterState::Running, Ev::Cont) => true,
        (InterpreterState::Running, Ev::Break) => true,
        (InterpreterState::AwaitingInput, Ev::Input(_)) => true,
        (InterpreterState::AwaitingInput, Ev::Break) => true,
        (InterpreterState::NewInterpreterRequested, Ev::Replace) => true,
        (InterpreterState::Running, Ev::StopEvaluating) => true,
        (InterpreterState::AwaitingInput, Ev::StopEvaluating) => true,
        (InterpreterState::Idle, Ev::Randomize(_)) => true,
        (InterpreterState::Running, Ev::Randomize(_)) => true,
        _ => false,
    }
}

/// A session on the real interpreter with a transcript.
pub struct Sess {
    pub it: Interpreter,
    pub recs: Vec<Rec>,
    pub last_line: Option<String>,
    pub last_err: Option<TracedInterpreterError>,
    pub calls: u64,
}

#[derive(Clone, Debug, PartialEq)]
pub enum CallResult {
    Ok,
    Err(String, Option<u64>),
    Panic(String),
}

impl Default for Sess {
    fn default() -> Self {
        Sess::new()
    }
}

impl Sess {
    pub fn new() -> Self {
        watch_reset();
        Sess {
            it: Interpreter::default(),
            recs: vec![],
            last_line: None,
            last_err: None,
            calls: 0,
        }
    }

    pub fn from_interpreter(it: Interpreter) -> Self {
        watch_reset();
        Sess {
            it,
            recs: vec![],
            last_line: None,
            last_err: None,
            calls: 0,
        }
    }

    pub fn state(&self) -> InterpreterState {
        self.it.get_state()
    }

    pub fn drain(&mut self) {
        for o in self.it.take_output() {
            self.recs.push(convert_output(o));
        }
    }

    fn finish(&mut self, r: Result<Result<(), TracedInterpreterError>, String>) -> CallResult {
        self.calls += 1;
        match r {
            Ok(Ok(())) => {
                self.drain();
                CallResult::Ok
            }
            Ok(Err(e)) => {
                self.drain();
                let k = err_kind(&e.error);
                let l = err_line(&e);
                self.recs.push(Rec::Error(k.clone(), l));
                self.last_err = Some(e);
                CallResult::Err(k, l)
            }
            Err(p) => {
                self.recs.push(Rec::Panic(p.clone()));
                CallResult::Panic(p)
            }
        }
    }

    /// Applies one host call (must be enabled in the current state).
    pub fn apply(&mut self, ev: &Ev) -> CallResult {
        if !matches!(ev, Ev::LineToIdle(_)) {
            watch_begin(ev);
            HOST_CALLS.fetch_add(1, std::sync::atomic::Ordering::Relaxed);
        }
        let r = self.apply_inner(ev);
        if !matches!(ev, Ev::LineToIdle(_)) {
            watch_end();
        }
        r
    }

    fn apply_inner(&mut self, ev: &Ev) -> CallResult {
        match ev {
            Ev::Line(l) => {
                self.last_line = Some(l.clone());
                let it = &mut self.it;
                let r = guarded(|| it.start_evaluating(l));
                self.finish(r)
            }
            Ev::LineToIdle(l) => {
                let mut r = self.apply(&Ev::Line(l.clone()));
                let mut turns = 0;
                while r == CallResult::Ok && self.state() == InterpreterState::Running && turns < 20000 {
                    r = self.apply(&Ev::Cont);
                    turns += 1;
                }
                r
            }
            Ev::Cont => {
                let it = &mut self.it;
                let r = guarded(|| it.continue_evaluating());
                self.finish(r)
            }
            Ev::Break => {
                let it = &mut self.it;
                let r = guarded(|| {
                    it.break_at_current_location();
                    Ok(())
                });
                self.finish(r)
            }
            Ev::Input(s) => {
                self.recs.push(Rec::Reply(s.clone()));
                let it = &mut self.it;
                let r = guarded(|| {
                    it.provide_input(s.clone());
                    Ok(())
                });
                self.finish(r)
            }
            Ev::StopEvaluating => {
                let it = &mut self.it;
                let r = guarded(|| {
                    let _ = it.stop_evaluating();
                    Ok(())
                });
                self.finish(r)
            }
            Ev::Replace => {
                let w = self.it.enable_warnings;
                let t = self.it.enable_tracing;
                let _ = (w, t);
                self.it = Interpreter::default();
                self.calls += 1;
                CallResult::Ok
            }
            Ev::Randomize(s) => {
                let it = &mut self.it;
                let r = guarded(|| {
                    it.randomize(*s);
                    Ok(())
                });
                self.finish(r)
            }
        }
    }

    /// Submits a line and keeps continuing until the interpreter is idle again, answering
    /// input requests from `replies`. Stops after `cap` continue calls.
    pub fn run_line(
        &mut self,
        line: &str,
        replies: &mut dyn Iterator<Item = String>,
        cap: usize,
    ) -> RunEnd {
        match self.apply(&Ev::Line(line.to_string())) {
            CallResult::Panic(p) => return RunEnd::Panic(p),
            CallResult::Err(k, l) => return RunEnd::Error(k, l),
            CallResult::Ok => {}
        }
        self.run_on(replies, cap)
    }

    /// Continues a running / awaiting interpreter until idle.
    pub fn run_on(&mut self, replies: &mut dyn Iterator<Item = String>, cap: usize) -> RunEnd {
        let mut turns = 0;
        loop {
            match self.state() {
                InterpreterState::Idle => return RunEnd::Idle,
                InterpreterState::NewInterpreterRequested => return RunEnd::NewRequested,
                InterpreterState::AwaitingInput => {
                    self.recs.push(Rec::Request);
                    match replies.next() {
                        Some(r) => {
                            if let CallResult::Panic(p) = self.apply(&Ev::Input(r)) {
                                return RunEnd::Panic(p);
                            }
                        }
                        None => return RunEnd::NoReply,
                    }
                }
                InterpreterState::Running => {
                    if turns >= cap {
                        return RunEnd::Cap;
                    }
                    turns += 1;
                    match self.apply(&Ev::Cont) {
                        CallResult::Panic(p) => return RunEnd::Panic(p),
                        CallResult::Err(k, l) => return RunEnd::Error(k, l),
                        CallResult::Ok => {}
                    }
                }
            }
        }
    }

    pub fn printed(&self) -> String {
        let mut s = String::new();
        for r in &self.recs {
            if let Rec::Print(p) = r {
                s.push_str(p);
            }
        }
        s
    }
}

#[derive(Clone, Debug, PartialEq)]
pub enum RunEnd {
    Idle,
    Error(String, Option<u64>),
    Cap,
    NoReply,
    NewRequested,
    Panic(String),
}

/// Feeds program lines, asserting each is accepted.
pub fn load_program(s: &mut Sess, lines: &[String]) -> Result<(), String> {
    for l in lines {
        match s.apply(&Ev::Line(l.clone())) {
            CallResult::Ok => {}
            other => return Err(format!("line {:?} was not accepted: {:?}", l, other)),
        }
    }
    Ok(())
}

pub fn recs_json(recs: &[Rec]) -> J {
    J::Array(recs.iter().map(|r| J::String(format!("{:?}", r))).collect())
}

// ---------------------------------------------------------------------------------------

/// A property violation found on the real code.
#[derive(Clone, Debug)]
pub struct Violation {
    /// Stable identification of what fails: canonical input + observed wrong outcome.
    pub signature: String,
    /// Human-readable explanation (observed vs expected).
    pub detail: String,
    /// Replayable case (kind + input).
    pub case: J,
}

pub struct Report {
    pub property: &'static str,
    pub level: &'static str,
    pub coverage: J,
    pub assumptions: Vec<String>,
    pub violations: Vec<Violation>,
    /// Total number of violating cases (may exceed `violations.len()`, which is capped).
    pub violating_cases: u64,
    pub started: Instant,
}

impl Report {
    pub fn new(property: &'static str, level: &'static str) -> Self {
        Report {
            property,
            level,
            coverage: json!({}),
            assumptions: vec![],
            violations: vec![],
            violating_cases: 0,
            started: Instant::now(),
        }
    }
    pub fn add(&mut self, v: Violation) {
        self.violating_cases += 1;
        if self.violations.len() < 2000 {
            self.violations.push(v);
        }
    }
    pub fn extend(&mut self, vs: Vec<Violation>) {
        for v in vs {
            self.add(v);
        }
    }
}

pub fn tier_is_thorough(tier: &str) -> bool {
    tier == "thorough"
}

/// Machinery failure (never a verdict).
pub fn machinery(msg: &str) -> ! {
    eprintln!("MACHINERY-ERROR: {}", msg);
    std::process::exit(2);
}

pub fn truncate(s: &str, n: usize) -> String {
    if s.chars().count() <= n {
        s.to_string()
    } else {
        let t: String = s.chars().take(n).collect();
        format!("{}…(+{} chars)", t, s.chars().count() - n)
    }
}
