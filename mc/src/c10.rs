//! C10 — RUN starts from a clean slate regardless of session history.
//! Shape A: BFS over session histories (program fixed); in every distinct idle state a
//! differential probe compares RUN there with RUN in a fresh interpreter holding the same
//! program and the same generator state.

use crate::bfs::*;
use crate::common::*;
use crate::gen::*;
use abasic_core::verif::VerifState;
use rayon::prelude::*;
use serde_json::json;
use std::collections::HashSet;

struct Prog {
    name: &'static str,
    lines: Vec<&'static str>,
    /// program-specific history events
    extra: Vec<&'static str>,
}

fn programs() -> Vec<Prog> {
    vec![
        Prog { name: "P0 (no program)", lines: vec![], extra: vec!["NEXT I", "RETURN", "PRINT X;S$;A(1)"] },
        Prog {
            name: "P1",
            lines: vec![
                "10 PRINT X;S$;A(1);A(7)",
                "20 READ Q: PRINT Q",
                "30 INPUT Z: PRINT Z",
                "40 PRINT RND(1)",
                "50 DATA 11,22",
                "60 NEXT I",
            ],
            extra: vec!["GOTO 30", "GOSUB 20"],
        },
        Prog {
            name: "P2",
            lines: vec![
                "10 PRINT FNA(1)",
                "20 DIM A(5)",
                "30 INPUT Z$: PRINT Z$",
                "40 RETURN",
                "900 DEF FNA(Q)=Q+40",
                "910 END",
            ],
            extra: vec!["GOTO 900", "GOSUB 30", "PRINT FNA(2)"],
        },
        Prog {
            name: "P4",
            lines: vec!["10 FOR J=1 TO 2: FOR I=1 TO 2", "20 PRINT J;I;: NEXT I: NEXT J", "30 DIM B(2): PRINT B(2)"],
            extra: vec!["FOR J=1 TO 9", "GOTO 20", "DIM B(20)", "B(9)=1"],
        },
        Prog {
            name: "P5",
            // an INPUT whose target cell is drawn afresh every time it is evaluated, and a DIM that
            // needs room (what earlier runs and the prompt have dimensioned is gone after RUN)
            lines: vec!["10 INPUT A(INT(RND(1)*6))", "20 PRINT A(0);A(1);A(2);A(3);A(4);A(5)", "30 DIM D(99): PRINT D(5)"],
            extra: vec!["DIM B(99,99)", "DIM C(99,99)", "GOTO 30"],
        },
        Prog {
            name: "P3",
            lines: vec!["10 PRINT \"a\";X", "20 STOP", "30 INPUT W", "40 PRINT W/0", "50 PRINT \"never\""],
            extra: vec!["GOTO 30", "GOSUB 10"],
        },
    ]
}

/// Sessions run with runtime warnings on: what has been warned about is session history too.
fn mk_sess() -> Sess {
    let mut s = Sess::new();
    s.it.enable_warnings = true;
    // ... and with tracing on: which line was reported last is history as well
    s.it.enable_tracing = true;
    s
}

fn common_events() -> Vec<Ev> {
    let mut v: Vec<Ev> = [
        "X=5", "S$=\"z\"", "DIM A(3)", "A(1)=2", "FOR I=1 TO 9", "READ Q", "RUN", "CONT", "PRINT 1/0", "INPUT X",
        // program edits: the probe compares with a fresh interpreter holding the *edited* program
        "50", "50 DATA 33,44", "15 PRINT \"e\";", "IF 1 THEN PRINT (((1/0)))", "25 PRINT \"x\";: DATA 7",
        // moves the generator away from its initial state
        "Y=RND(1)",
        // a line in front of the line that was the first one so far
        "5 PRINT \"f\";",
    ]
    .iter()
    .map(|l| Ev::Line(l.to_string()))
    .collect();
    v.push(Ev::Cont);
    v.push(Ev::Break);
    v.push(Ev::StopEvaluating);
    v.push(Ev::Input("5".into()));
    v.push(Ev::Input("x".into()));
    v
}

/// Statements that fail half way (a READ refused for its target, for the item's type, for want of
/// items): used by the unmerged pass only, where what they leave behind cannot be merged away.
fn residue_events() -> Vec<Ev> {
    let mut v: Vec<Ev> = ["READ A(0-1)", "25 DATA \"s\"", "READ Q,Q,Q", "READ Q"].iter().map(|l| Ev::Line(l.to_string())).collect();
    // whole runs as one event (a run that defines a function, a complete RUN): what a statement
    // typed after them leaves behind is then within reach of the short unmerged histories
    v.push(Ev::LineToIdle("GOTO 900".into()));
    v.push(Ev::LineToIdle("RUN".into()));
    v
}

/// Spellings of the command (text after the word is ignored by the command processor).
const RUN_SPELLINGS: [&str; 3] = ["RUN", "run", "RUN 30"];

fn drive_run(s: &mut Sess) -> (Vec<String>, VerifState) {
    drive_run_as(s, "RUN")
}

fn drive_run_as(s: &mut Sess, cmd: &str) -> (Vec<String>, VerifState) {
    s.recs.clear();
    let mut replies = vec!["7".to_string(), "8".to_string(), "q".to_string(), "9".to_string()].into_iter();
    let end = s.run_line(cmd, &mut replies, 500);
    let mut t: Vec<String> = s.recs.iter().map(|r| format!("{:?}", r)).collect();
    t.push(format!("{:?}", end));
    (t, s.it.verif_snapshot())
}

pub fn run(thorough: bool) -> Report {
    let mut rep = Report::new("C10", "model_checking");
    let depth = if thorough { 8 } else { 6 };
    let mut total_states = 0u64;
    let mut total_trans = 0u64;
    let mut probes = 0u64;
    let mut unmerged = 0u64;
    let mut covs = vec![];
    let mut seen = HashSet::new();
    for p in programs() {
        let root: Vec<Ev> = p.lines.iter().map(|l| Ev::Line(l.to_string())).collect();
        let mut alpha = common_events();
        for e in &p.extra {
            alpha.push(Ev::Line(e.to_string()));
        }
        // Reference: fresh interpreter with the same program.
        let fresh = {
            let mut s = mk_sess();
            for e in &root {
                let _ = s.apply(e);
            }
            s.it.randomize(12345);
            drive_run(&mut s)
        };
        let probe_count = std::sync::atomic::AtomicU64::new(0);
        let root2 = root.clone();
        let probe = |hist: &[Ev], snap: &VerifState| -> Vec<Violation> {
            if snap.state != "Idle" {
                return vec![];
            }
            probe_count.fetch_add(1, std::sync::atomic::Ordering::Relaxed);
            let mk = || mk_sess();
            let mut out = vec![];
            for cmd in RUN_SPELLINGS {
                let mut s = replay(&mk, hist);
                // the reference: a fresh interpreter given the program as it is listed now
                let fresh = {
                    let mut l = replay(&mk, hist);
                    l.recs.clear();
                    let _ = l.apply(&Ev::Line("LIST".into()));
                    let lines: Vec<String> = l.recs.iter().filter_map(|r| if let Rec::Print(p) = r { Some(p.trim_end_matches('\n').to_string()) } else { None }).collect();
                    let mut f = mk_sess();
                    for line in &lines {
                        let _ = f.apply(&Ev::Line(line.clone()));
                    }
                    // ... and the same generator state as the session has reached
                    f.it.randomize(snap.rng_state);
                    drive_run_as(&mut f, cmd)
                };
                let r = guarded(|| drive_run_as(&mut s, cmd));
                let mut full = hist.to_vec();
                full.push(Ev::Line(cmd.to_string()));
                let _ = &root2;
                match r {
                    Err(pn) => out.push(Violation {
                        signature: format!("panic {}", short_panic(&pn)),
                        detail: pn,
                        case: case_history(&full, true, true),
                    }),
                    Ok((t, fin)) => {
                        if t != fresh.0 {
                            // first differing record
                            let i = t.iter().zip(&fresh.0).position(|(a, b)| a != b).unwrap_or(t.len().min(fresh.0.len()));
                            out.push(Violation {
                                signature: format!("{} {} transcript differs from a fresh interpreter: {} vs {}", p.name, cmd, t.get(i).cloned().unwrap_or_default(), fresh.0.get(i).cloned().unwrap_or_default()),
                                detail: format!("after the history, {} gives {:?}; in a fresh interpreter with the same program and generator state it gives {:?}", cmd, t, fresh.0),
                                case: case_history(&full, true, true),
                            });
                        } else if !{
                            // "the same random-number state": RUN itself leaves the generator alone, so
                            // the state after the run lies on the sequence that starts at the state before
                            let mut x = snap.rng_state;
                            let mut on_orbit = x == fin.rng_state;
                            for _ in 0..64 {
                                x = crate::refmodel::lcg_next(x);
                                on_orbit = on_orbit || x == fin.rng_state;
                            }
                            on_orbit
                        } {
                            out.push(Violation {
                                signature: format!("{} {} moved the random generator off its sequence", p.name, cmd),
                                detail: format!("generator state before {}: {}; after the run: {}, which is not within 64 steps of the documented sequence from there", cmd, snap.rng_state, fin.rng_state),
                                case: case_history(&full, true, true),
                            });
                        } else if fin != fresh.1 {
                            out.push(Violation {
                                signature: format!("{} state after {} differs from a fresh interpreter", p.name, cmd),
                                detail: format!("final state {:?} vs {:?}", fin, fresh.1),
                                case: case_history(&full, true, true),
                            });
                        }
                    }
                }
                if !out.is_empty() {
                    break;
                }
            }
            out
        };
        let check = |t: &Transition, _s: &mut Sess| -> Vec<Violation> {
            if let CallResult::Panic(pn) = t.result {
                let mut h = t.hist.to_vec();
                h.push(t.ev.clone());
                return vec![Violation { signature: format!("panic {}", short_panic(pn)), detail: pn.clone(), case: case_history(&h, false, false) }];
            }
            vec![]
        };
        let mk = || mk_sess();
        let (stats, viol) = bfs(&mk, &[root.clone()], &alpha, depth, &check, Some(&probe), 8_000_000);
        if viol.is_empty() && stats.events_enabled.len() < alpha.len() {
            machinery("vacuous: not every history event was enabled");
        }
        // Unmerged short histories: the search above probes a state once, whichever history reached
        // it first; what a history leaves behind outside the canonical snapshot (a parked item, a
        // cached position) would be merged away. Every history of <= k events is probed here,
        // without any merging.
        let mut viol = viol;
        {
            let k = if thorough { 3 } else { 2 };
            let mut alpha = alpha.clone();
            for e in residue_events() {
                if !alpha.contains(&e) {
                    alpha.push(e);
                }
            }
            let mut layer: Vec<Vec<Ev>> = vec![root.clone()];
            for _ in 0..k {
                let next: Vec<(Vec<Ev>, Option<VerifState>)> = layer
                    .par_iter()
                    .flat_map_iter(|h| {
                        let st = replay(&mk, h).state();
                        let mut out = vec![];
                        for e in &alpha {
                            if !enabled(st, e) {
                                continue;
                            }
                            let mut s = replay(&mk, h);
                            let r = s.apply(e);
                            if matches!(r, CallResult::Panic(_)) {
                                continue;
                            }
                            let mut h2 = h.clone();
                            h2.push(e.clone());
                            let snap = guarded(|| s.it.verif_snapshot()).ok();
                            out.push((h2, snap));
                        }
                        out.into_iter()
                    })
                    .collect();
                let pv: Vec<Violation> = next
                    .par_iter()
                    .flat_map_iter(|(h, snap)| match snap {
                        Some(sn) => probe(h, sn).into_iter(),
                        None => vec![].into_iter(),
                    })
                    .collect();
                unmerged += next.len() as u64;
                viol.extend(pv);
                layer = next.into_iter().map(|(h, _)| h).collect();
            }
        }
        total_states += stats.states;
        total_trans += stats.transitions;
        probes += probe_count.load(std::sync::atomic::Ordering::Relaxed);
        covs.push(json!({"program": p.name, "lines": p.lines, "states": stats.states, "transitions": stats.transitions, "states_per_layer": stats.states_per_layer, "fresh_run_transcript": fresh.0}));
        let mut v = viol;
        v.sort_by_key(|x| x.case["events"].as_array().map(|a| a.len()).unwrap_or(0));
        for x in v {
            rep.violating_cases += 1;
            if seen.insert(x.signature.clone()) {
                rep.violations.push(x);
            }
        }
    }
    rep.coverage = json!({
        "states": total_states,
        "transitions": total_trans + probes,
        "traces_validated_against_impl": probes,
        "probes_in_distinct_idle_states": probes,
        "unmerged_short_histories_probed": unmerged,
        "depth_bound": depth,
        "per_program": covs,
        "exhaustive": true,
        "samples": [hist_json(&[Ev::Line("RUN".into()), Ev::Cont, Ev::Cont, Ev::Input("5".into()), Ev::Break, Ev::Line("RUN".into())])],
    });
    rep.assumptions = vec!["equal canonical snapshots have equal futures, so probing once per distinct state covers every history that reaches it".into()];
    rep
}
