#!/bin/bash
# Runs the repository's own suite with hooks OFF and prints a one-line summary.
cd /repo && RUST_BACKTRACE=0 CARGO_NET_OFFLINE=true cargo test --workspace --no-fail-fast --offline 2>&1 | awk '/^test result:/ {p+=$4; f+=$6} /^error/ {print} END {print "passed=" p " failed=" f}'
