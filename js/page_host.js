// Hosts the *real* abasic-web/ts/main.ts (type annotations removed by a small set of generic
// rewriting rules; the result must parse) in a node `vm` context.
// Every call the page makes on the JsInterpreter object is forwarded, synchronously, as a
// JSON line on stdout to the Rust harness, which executes it on the real adapter and
// answers on stdin. The harness also sends the page events (new / submit / break / tick).
"use strict";
const fs = require("fs");
const vm = require("vm");

const mainTsPath = process.argv[2];
let src = fs.readFileSync(mainTsPath, "utf8");

// Type stripping: generic rules for the small TypeScript subset main.ts uses (imports,
// constructor parameter properties, member modifiers, parameter and return types on signature
// lines). The result must parse as JavaScript, otherwise the run is a machinery failure.
function strip(src) {
  src = src.replace(/import\s*\{([^}]*)\}\s*from\s*"\.\.\/pkg\/abasic_web\.js";/, (m, names) =>
    "const {" + names.replace(/default\s+as\s+wasm/, "default: wasm") + "} = __pkg;");
  src = src.replace(/import \* as ui from "\.\/ui\.js";/, "const ui = __ui;");
  src = src.replace(/import \{ unreachable \} from "\.\/util\.js";/, "const unreachable = __unreachable;");
  src = src.replace(/constructor\(((?:\s*(?:private|public|protected|readonly)\s+)+)([\w$]+)\s*:\s*[\w.<>\[\]| ]+\)\s*\{/g,
    "constructor($2) { this.$2 = $2;");
  src = src.replace(/^(\s*)(?:(?:private|public|protected|readonly)\s+)+/gm, "$1");
  src = src.split("\n").map((line) => {
    const m = line.match(/^(\s*(?:async\s+)?(?:function\s+)?[\w$.]+\s*(?:=\s*(?:async\s*)?)?)\(([^()]*)\)(\s*:\s*[^={]+?)?(\s*(?:=>)?\s*\{\s*)$/);
    if (!m) return line;
    const params = m[2].replace(/([\w$]+)\s*\??\s*:\s*[^,]+/g, "$1");
    return m[1] + "(" + params + ")" + m[4];
  }).join("\n");
  // expose the page object (its isFullyInteractive flag is part of the explorer's state key)
  src = src.replace(/const interpreter = new Interpreter\(([^;]*)\);/, "const interpreter = new Interpreter($1); globalThis.__interp = interpreter;");
  return src;
}
src = strip(src);
if (/^\s*import\s/m.test(src)) {
  process.stdout.write(JSON.stringify({ fatal: "an import statement of main.ts was not recognised by the type stripper" }) + "\n");
  process.exit(3);
}
let script;
try {
  script = new vm.Script(src, { filename: "main.ts(stripped)" });
} catch (e) {
  process.stdout.write(JSON.stringify({ fatal: "stripped main.ts does not parse: " + e.message }) + "\n");
  process.exit(3);
}

// ---- synchronous line-based channel with the harness
let inbuf = Buffer.alloc(0);
function readLine() {
  for (;;) {
    const i = inbuf.indexOf(10);
    if (i >= 0) {
      const line = inbuf.subarray(0, i).toString("utf8");
      inbuf = inbuf.subarray(i + 1);
      return line;
    }
    const chunk = Buffer.alloc(65536);
    let n;
    try {
      n = fs.readSync(0, chunk, 0, chunk.length, null);
    } catch (e) {
      if (e.code === "EAGAIN") continue;
      if (e.code === "EOF") return null;
      throw e;
    }
    if (n === 0) return null;
    inbuf = Buffer.concat([inbuf, chunk.subarray(0, n)]);
  }
}
function send(obj) {
  const data = Buffer.from(JSON.stringify(obj) + "\n", "utf8");
  let off = 0;
  while (off < data.length) {
    try {
      off += fs.writeSync(1, data, off, data.length - off);
    } catch (e) {
      if (e.code === "EAGAIN") continue;
      throw e;
    }
  }
}
class Trap extends Error {}
function rpc(method, arg) {
  send({ rpc: method, arg: arg === undefined ? null : arg });
  const line = readLine();
  if (line === null) process.exit(0);
  const r = JSON.parse(line);
  if (r.trap !== undefined) throw new Trap("adapter trapped: " + r.trap);
  return r.reply;
}

// ---- one page instance
let page = null;
function newPage(program) {
  const uiLog = [];
  const p = { timers: [], submitCb: null, keyCb: null, input: "", inputDisabled: false, uiLog, ctx: null };
  const ui = {
    print: (m) => uiLog.push(["print", String(m)]),
    printSpanWithClass: (m, c) => uiLog.push(["span:" + c, String(m)]),
    clearScreen: () => uiLog.push(["clearScreen"]),
    setPrompt: (t) => uiLog.push(["prompt", t]),
    commitCurrentPromptToOutput: (t) => uiLog.push(["commit", t === undefined ? "" : t]),
    onInputKeyDown: (cb) => { p.keyCb = cb; },
    onSubmitInput: (cb) => { p.submitCb = cb; },
    getInput: () => p.input,
    clearInput: () => { p.input = ""; },
    clearPromptAndDisableInput: () => { uiLog.push(["disable"]); p.input = ""; p.inputDisabled = true; },
  };
  const State = Object.freeze({ Idle: 0, 0: "Idle", Running: 1, 1: "Running", AwaitingInput: 2, 2: "AwaitingInput", Errored: 3, 3: "Errored" });
  const OutType = Object.freeze({ Print: 0, 0: "Print", Break: 1, 1: "Break", Warning: 2, 2: "Warning", Trace: 3, 3: "Trace", ExtraIgnored: 4, 4: "ExtraIgnored", Reenter: 5, 5: "Reenter" });
  const impl = {
    randomize: (seed) => rpc("randomize", String(seed)),
    provide_input: (s) => rpc("provide_input", s),
    take_latest_output: () => rpc("take_latest_output").map(([t, v]) => ({ output_type: t, into_string: () => v })),
    take_latest_error: () => { const e = rpc("take_latest_error"); return e === null ? undefined : e; },
    break_at_current_location: () => rpc("break_at_current_location"),
    start_evaluating: (l) => rpc("start_evaluating", l),
    continue_evaluating: () => rpc("continue_evaluating"),
    get_state: () => rpc("get_state"),
  };
  const sandbox = {
    __ui: ui,
    __unreachable: (x) => { throw new Error("unreachable: " + x); },
    __pkg: null,
    window: {
      location: { search: program === null ? "" : "?p=prog" },
      setTimeout: (cb, _ms) => { p.timers.push(cb); return p.timers.length; },
    },
    fetch: null,
    URLSearchParams,
    console: { warn: () => {}, log: () => {}, error: () => {} },
    BigInt,
  };
  const ctx = vm.createContext(sandbox, { microtaskMode: "afterEvaluate" });
  // The promise returned by wasm() must belong to the context so that its reactions run
  // on the context's own microtask queue (drained after evaluation).
  const mkPkg = vm.runInContext("(function (JsInterpreter, S, O) { return { default: () => Promise.resolve({}), JsInterpreter, JsInterpreterState: S, JsInterpreterOutputType: O }; })", ctx);
  sandbox.__pkg = mkPkg({ new: () => impl }, State, OutType);
  // fetch must also hand out promises of the context's own realm.
  sandbox.fetch = vm.runInContext("(function (program) { return async (_path) => ({ ok: true, status: 200, text: async () => program }); })", ctx)(program);
  vm.runInContext("Date.now = () => 1700000000000;", ctx);
  p.ctx = ctx;
  page = p;
  return p;
}

function done(threw) {
  let fully = null;
  try { fully = page && page.ctx.__interp ? !!page.ctx.__interp.isFullyInteractive : null; } catch (e) {}
  send({ done: { threw: threw, timers: page ? page.timers.length : 0, inputDisabled: page ? page.inputDisabled : false, fully: fully, ready: !!(page && page.submitCb), ui: page ? page.uiLog.splice(0) : [] } });
}

for (;;) {
  const line = readLine();
  if (line === null) break;
  const cmd = JSON.parse(line);
  let threw = null;
  try {
    if (cmd.cmd === "new") {
      const p = newPage(cmd.program);
      // The module's last statement is `wasm().then(async ...)`: its promise is the script's
      // completion value. An exception inside that async chain (a trap while loading the
      // program, a failed assertion in the page) only rejects the promise, so observe it.
      const pr = script.runInContext(p.ctx);
      if (pr && typeof pr.then === "function") {
        const watch = vm.runInContext("(function (pr, sink) { pr.then(() => { sink.settled = true; }, (e) => { sink.settled = true; sink.asyncError = String(e && e.message ? e.message : e); }); })", p.ctx);
        watch(pr, p);
        vm.runInContext("0", p.ctx);
        if (p.asyncError !== undefined) threw = (p.asyncError.startsWith("adapter trapped") ? "TRAP " : "THROW ") + p.asyncError;
        else if (!p.settled) threw = "harness error: start-up chain did not settle";
      } else {
        threw = "harness error: main.ts did not end with the start-up promise";
      }
    } else if (cmd.cmd === "submit") {
      if (page.inputDisabled) { threw = "harness error: submit on a disabled input"; }
      else { page.input = cmd.text; page.submitCb(); }
    } else if (cmd.cmd === "break") {
      if (page.inputDisabled) { threw = "harness error: key on a disabled input"; }
      else { page.keyCb({ ctrlKey: true, key: "c", preventDefault: () => {} }, { selectionStart: 0, selectionEnd: 0 }); }
    } else if (cmd.cmd === "tick") {
      const cb = page.timers.shift();
      if (cb) cb(); else threw = "harness error: no timer pending";
    } else if (cmd.cmd === "quit") {
      break;
    }
  } catch (e) {
    threw = (e instanceof Trap ? "TRAP " : "THROW ") + (e && e.message ? e.message : String(e));
  }
  done(threw);
}
